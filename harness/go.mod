module qverif

go 1.20

require github.com/tobgu/qframe v0.0.0

replace github.com/tobgu/qframe => /repo
