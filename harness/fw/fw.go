// Package fw is the small framework shared by all property monitors:
// deterministic case seeding, worker/driver processes, verdicts, evidence.
package fw

import (
	"encoding/json"
	"fmt"
	"hash/fnv"
	"math/rand"
	"os"
	"runtime/debug"
	"sort"
	"strings"
)

// Stage is one part of a run: a number of cases executed by workers of one build flavour.
type Stage struct {
	Name    string // free text, e.g. "main", "race", "asan"
	Flavour string // "ptr", "race", "asan"
	Cases   int
	// MaxProcs limits the number of parallel workers (0 = number of CPUs).
	MaxProcs int
	// ChunkSize overrides the number of cases per worker process (0 = automatic).
	ChunkSize int
}

// Property describes one monitored property.
type Property struct {
	ID          string
	Level       string // evidence level: exploration | fault_enumeration
	Rule        string
	Assumptions []string
	Exhaustive  func(tier string) bool
	Stages      func(tier string) []Stage
	RunCase     func(c *Case)
	// Conclude may turn an otherwise clean run into an inconclusive one
	// (returns a non-empty reason) when the monitors observed too little.
	Conclude func(tier string, counters map[string]int64, stagesRun []string) string
}

var registry = map[string]*Property{}

// Register adds a property to the registry.
func Register(p *Property) { registry[p.ID] = p }

// Lookup finds a property.
func Lookup(id string) *Property { return registry[id] }

// IDs lists all registered property ids.
func IDs() []string {
	ids := make([]string, 0, len(registry))
	for id := range registry {
		ids = append(ids, id)
	}
	sort.Strings(ids)
	return ids
}

// Violation is one observed refutation of a property.
type Violation struct {
	Key    string      `json:"key"` // shape key, used to match known findings and to de-duplicate
	Msg    string      `json:"msg"`
	Stage  int         `json:"stage"`
	CaseNo int         `json:"case"`
	Desc   interface{} `json:"desc,omitempty"`
	Stderr string      `json:"stderr,omitempty"`
}

// Case is the context of one generated case.
type Case struct {
	Prop    *Property
	Tier    string
	Seed    int64
	Stage   int
	StageNm string
	No      int
	Rng     *rand.Rand
	Verbose bool
	W       *Worker

	desc       interface{}
	descFn     func() interface{}
	violations []Violation
}

// Worker holds per-process state and accumulates results.
type Worker struct {
	Cache map[string]interface{}
	// KnownKeys holds the shape keys of recorded findings for the property being run.
	KnownKeys map[string]bool
	// Unknown counts violations that are not recorded findings.
	Unknown int

	res    WorkerResult
	seenNT map[uint64]struct{}
}

// WorkerResult is what a worker process reports to the driver.
type WorkerResult struct {
	Evaluations int64            `json:"evaluations"`
	ExtraNT     int64            `json:"extra_nontrivial"` // distinct-by-construction non-trivial sub-cases
	NTHashes    []uint64         `json:"nt_hashes"`
	Counters    map[string]int64 `json:"counters"`
	Samples     []interface{}    `json:"samples"`
	Violations  []Violation      `json:"violations"`
	Done        bool             `json:"done"`
	CasesRun    int              `json:"cases_run"`
}

// NewWorker creates the per process state.
func NewWorker() *Worker {
	return &Worker{Cache: map[string]interface{}{}, seenNT: map[uint64]struct{}{}, res: WorkerResult{Counters: map[string]int64{}}}
}

// Result returns the accumulated result.
func (w *Worker) Result() *WorkerResult {
	w.res.NTHashes = w.res.NTHashes[:0]
	for h := range w.seenNT {
		w.res.NTHashes = append(w.res.NTHashes, h)
	}
	sort.Slice(w.res.NTHashes, func(i, j int) bool { return w.res.NTHashes[i] < w.res.NTHashes[j] })
	return &w.res
}

// Hash64 is the hash used for seeds and distinctness keys.
func Hash64(parts ...interface{}) uint64 {
	h := fnv.New64a()
	for _, p := range parts {
		fmt.Fprintf(h, "%v\x00", p)
	}
	x := h.Sum64()
	// final avalanche
	x ^= x >> 33
	x *= 0xff51afd7ed558ccd
	x ^= x >> 33
	x *= 0xc4ceb9fe1a85ec53
	x ^= x >> 33
	return x
}

// CaseSeed derives the PRNG seed of one case.
func CaseSeed(seed int64, prop string, stage, no int) int64 {
	return int64(Hash64("case", seed, prop, stage, no) >> 1)
}

// NewCase prepares a case context.
func NewCase(p *Property, w *Worker, tier string, seed int64, stage int, stageName string, no int) *Case {
	return &Case{Prop: p, Tier: tier, Seed: seed, Stage: stage, StageNm: stageName, No: no, W: w,
		Rng: rand.New(rand.NewSource(CaseSeed(seed, p.ID, stage, no)))}
}

// Thorough reports whether the thorough tier is running.
func (c *Case) Thorough() bool { return c.Tier == "thorough" }

// Eval counts n evaluations (executions judged by the oracle).
func (c *Case) Eval(n int) { c.W.res.Evaluations += int64(n) }

// Nontrivial records that a (sub)case identified by key was non-trivial by the property's rule.
func (c *Case) Nontrivial(key ...interface{}) {
	c.W.seenNT[Hash64(key...)] = struct{}{}
}

// NontrivialN adds n non-trivial sub-cases that are distinct by construction.
func (c *Case) NontrivialN(n int64) { c.W.res.ExtraNT += n }

// Count adds to a named counter.
func (c *Case) Count(name string, n int64) { c.W.res.Counters[name] += n }

// Max keeps the maximum in a named counter (prefix "max:" is used by the driver to merge with max).
func (c *Case) Max(name string, n int64) {
	k := "max:" + name
	if n > c.W.res.Counters[k] {
		c.W.res.Counters[k] = n
	}
}

// Describe sets a description of the case that is stored in samples and witnesses.
func (c *Case) Describe(d interface{}) { c.desc = d; c.descFn = nil }

// DescribeLazy sets a description that is only materialised when needed.
func (c *Case) DescribeLazy(f func() interface{}) { c.descFn = f; c.desc = nil }

func (c *Case) description() interface{} {
	if c.desc == nil && c.descFn != nil {
		c.desc = c.descFn()
	}
	return c.desc
}

// Fail records a violation.
func (c *Case) Fail(key string, format string, args ...interface{}) {
	msg := fmt.Sprintf(format, args...)
	if len(msg) > 4000 {
		msg = msg[:4000] + "…"
	}
	c.violations = append(c.violations, Violation{Key: key, Msg: msg, Stage: c.Stage, CaseNo: c.No})
	if c.Verbose {
		fmt.Printf("  FAIL key=%s: %s\n", key, msg)
	}
}

// Failed reports if the case already has a violation.
func (c *Case) Failed() bool { return len(c.violations) > 0 }

// Logf prints in verbose (replay) mode.
func (c *Case) Logf(format string, args ...interface{}) {
	if c.Verbose {
		fmt.Printf("  "+format+"\n", args...)
	}
}

// Guard runs f and converts a panic into a returned description (nil if none).
func Guard(f func()) (pv interface{}, stack string) {
	defer func() {
		if r := recover(); r != nil {
			pv = r
			stack = string(debug.Stack())
		}
	}()
	f()
	return nil, ""
}

// GuardFail runs f; a panic is recorded as a violation with the given key prefix.
func (c *Case) GuardFail(key string, what string, f func()) bool {
	pv, stack := Guard(f)
	if pv != nil {
		c.Fail("panic:"+key, "panic in %s: %v\n%s", what, pv, trimStack(stack))
		return false
	}
	return true
}

func trimStack(s string) string {
	lines := strings.Split(s, "\n")
	out := []string{}
	for _, l := range lines {
		if strings.Contains(l, "qframe") || strings.Contains(l, "panic") {
			out = append(out, strings.TrimSpace(l))
		}
		if len(out) > 24 {
			break
		}
	}
	return strings.Join(out, "\n")
}

// Finish folds the case into the worker result.
func (c *Case) Finish() {
	w := c.W
	w.res.CasesRun++
	if len(c.violations) > 0 {
		d := c.description()
		for i := range c.violations {
			v := c.violations[i]
			if w.KnownKeys[v.Key] {
				// recorded findings do not use up the violation budget of the worker
				w.res.Counters["known:"+v.Key]++
				if w.res.Counters["known:"+v.Key] > 2 {
					continue
				}
			} else {
				w.Unknown++
				if w.Unknown > 40 {
					continue
				}
			}
			if i == 0 {
				v.Desc = d
			}
			w.res.Violations = append(w.res.Violations, v)
		}
		w.res.Counters["violating_cases"]++
	} else if len(w.res.Samples) < 3 && c.Rng.Intn(4) == 0 || (len(w.res.Samples) == 0) {
		if d := c.description(); d != nil {
			w.res.Samples = append(w.res.Samples, map[string]interface{}{"stage": c.StageNm, "case": c.No, "desc": d})
		}
	}
}

// WriteJSON writes v to path atomically enough for our purposes.
func WriteJSON(path string, v interface{}) error {
	b, err := json.MarshalIndent(v, "", " ")
	if err != nil {
		return err
	}
	tmp := path + ".tmp"
	if err := os.WriteFile(tmp, b, 0o644); err != nil {
		return err
	}
	return os.Rename(tmp, path)
}
