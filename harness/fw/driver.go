package fw

import (
	"bufio"
	"bytes"
	"context"
	"encoding/json"
	"fmt"
	"os"
	"os/exec"
	"path/filepath"
	"regexp"
	"runtime"
	"sort"
	"strconv"
	"strings"
	"sync"
	"time"
)

// OutDir is where evidence/ and replays/ are written: /verif, unless QV_OUT_DIR redirects it
// (used when seeded changes are tried, so that the committed evidence is not overwritten).
func OutDir() string {
	if d := os.Getenv("QV_OUT_DIR"); d != "" {
		return d
	}
	return VerifDir()
}

// VerifDir is where evidence, replays and known findings live.
func VerifDir() string {
	if d := os.Getenv("QV_VERIF_DIR"); d != "" {
		return d
	}
	return "/verif"
}

// ---------------------------------------------------------------- worker

// RunWorker executes cases [from,to) of one stage and writes the result file.
func RunWorker(p *Property, tier string, seed int64, stage int, stageName string, from, to int, outPath, logPath string) {
	w := NewWorker()
	w.KnownKeys = map[string]bool{}
	for _, kf := range loadKnownFindings() {
		if kf.Prop == p.ID {
			w.KnownKeys[kf.Key] = true
		}
	}
	var logF *os.File
	if logPath != "" {
		logF, _ = os.Create(logPath)
	}
	flush := func(done bool) {
		r := w.Result()
		r.Done = done
		_ = WriteJSON(outPath, r)
	}
	for no := from; no < to; no++ {
		if logF != nil {
			_, _ = logF.WriteAt([]byte(fmt.Sprintf("%-12d\n", no)), 0)
		}
		c := NewCase(p, w, tier, seed, stage, stageName, no)
		pv, stack := Guard(func() { p.RunCase(c) })
		if pv != nil {
			c.Fail("panic:harness-or-unguarded", "unguarded panic while running case: %v\n%s", pv, trimStack(stack))
		}
		c.Finish()
		if w.Unknown >= 40 {
			break
		}
	}
	flush(true)
}

// ---------------------------------------------------------------- known findings

type knownFinding struct {
	Prop, Key, Text string
}

func loadKnownFindings() []knownFinding {
	var out []knownFinding
	b, err := os.ReadFile(filepath.Join(VerifDir(), "known_findings.txt"))
	if err != nil {
		return nil
	}
	for _, line := range strings.Split(string(b), "\n") {
		line = strings.TrimSpace(line)
		if !strings.HasPrefix(line, "known:") {
			continue
		}
		rest := strings.TrimSpace(strings.TrimPrefix(line, "known:"))
		f := strings.Fields(rest)
		kf := knownFinding{}
		n := 0
		for _, tok := range f {
			if strings.HasPrefix(tok, "property=") && kf.Prop == "" {
				kf.Prop = strings.TrimPrefix(tok, "property=")
				n++
			} else if strings.HasPrefix(tok, "key=") && kf.Key == "" {
				kf.Key = strings.TrimPrefix(tok, "key=")
				n++
			} else {
				break
			}
		}
		kf.Text = strings.Join(f[n:], " ")
		if kf.Prop != "" && kf.Key != "" {
			out = append(out, kf)
		}
	}
	return out
}

// ---------------------------------------------------------------- driver

type chunk struct {
	stage    int
	from, to int
}

type chunkOutcome struct {
	chunk   chunk
	res     *WorkerResult
	crashed bool
	timeout bool
	stalled bool // no case finished for the stall limit
	aborted bool // not run (or stopped) because another worker of the run had hit the watchdog
	lastNo  int
	stderr  string
	races   []raceReport
	// raceWorker marks a worker built with -race whose race log was scanned
	raceWorker bool
}

type raceReport struct {
	key  string
	text string
}

// Replay is the content of a replay file.
type Replay struct {
	Property string      `json:"property"`
	Tier     string      `json:"tier"`
	Seed     int64       `json:"seed"`
	Stage    int         `json:"stage"`
	Flavour  string      `json:"flavour"`
	CaseNo   int         `json:"case"`
	Key      string      `json:"key"`
	Msg      string      `json:"msg"`
	Desc     interface{} `json:"desc,omitempty"`
	Stderr   string      `json:"stderr,omitempty"`
	How      string      `json:"how"`
}

func flavourBin(fl string) string {
	if p := os.Getenv("QV_BIN_" + fl); p != "" {
		if _, err := os.Stat(p); err == nil {
			return p
		}
	}
	if fl == "ptr" {
		exe, _ := os.Executable()
		return exe
	}
	return ""
}

var raceFrameRe = regexp.MustCompile(`^\s+(github\.com/tobgu/qframe[^\s(]*|qverif[^\s(]*)\(`)

func parseRaceLogs(glob string) []raceReport {
	files, _ := filepath.Glob(glob)
	var out []raceReport
	for _, f := range files {
		b, err := os.ReadFile(f)
		if err != nil {
			continue
		}
		blocks := strings.Split(string(b), "==================")
		for _, blk := range blocks {
			if !strings.Contains(blk, "WARNING: DATA RACE") {
				continue
			}
			// the first qframe function of each of the two access stacks
			var tops []string
			sections := regexp.MustCompile(`(?m)^(Write|Read|Previous write|Previous read|Atomic|Previous atomic)[^\n]*\n`).Split(blk, -1)
			for _, s := range sections[1:] {
				top := ""
				sc := bufio.NewScanner(strings.NewReader(s))
				for sc.Scan() {
					line := sc.Text()
					if strings.TrimSpace(line) == "" {
						break
					}
					if m := raceFrameRe.FindStringSubmatch(line); m != nil && strings.Contains(m[1], "tobgu/qframe") {
						top = m[1]
						break
					}
				}
				if top == "" {
					top = "(no qframe frame)"
				}
				tops = append(tops, top)
				if len(tops) == 2 {
					break
				}
			}
			sort.Strings(tops)
			txt := blk
			if len(txt) > 6000 {
				txt = txt[:6000]
			}
			out = append(out, raceReport{key: "race:" + strings.Join(tops, "|"), text: txt})
		}
	}
	return out
}

// RunDriver runs all stages of a property and returns the process exit code.
func RunDriver(p *Property, tier string, seed int64) int {
	start := time.Now()
	workDir := os.Getenv("QV_WORK")
	if workDir == "" {
		d, err := os.MkdirTemp("", "qverif-run-")
		if err != nil {
			fmt.Printf("INCONCLUSIVE property=%s reason=cannot create work dir: %v\n", p.ID, err)
			return 2
		}
		workDir = d
		defer os.RemoveAll(d)
	}
	hooksState := os.Getenv("QV_HOOKS")
	if hooksState == "" {
		hooksState = "unknown"
	}

	stages := p.Stages(tier)
	ncpu := runtime.NumCPU()
	if v, err := strconv.Atoi(os.Getenv("QV_PROCS")); err == nil && v > 0 {
		ncpu = v
	}

	total := WorkerResult{Counters: map[string]int64{}}
	nt := map[uint64]struct{}{}
	ntSampled := false
	var violations []Violation
	violFlavour := map[int]string{}
	var inconclusive []string
	var stagesRun []string
	stageInfo := []map[string]interface{}{}

	watchdog := 20 * time.Minute
	if tier == "thorough" {
		watchdog = 90 * time.Minute
	}
	if v, err := strconv.Atoi(os.Getenv("QV_WATCHDOG_S")); err == nil && v > 0 {
		watchdog = time.Duration(v) * time.Second
	}
	// a worker that does not finish a single case for this long is stopped (a spinning or dead-locked operation);
	// like the watchdog this makes the run inconclusive, and it ends the run: the verdict cannot become "held" any more
	stall := 6 * time.Minute
	if tier == "thorough" {
		stall = 20 * time.Minute
	}
	if v, err := strconv.Atoi(os.Getenv("QV_STALL_S")); err == nil && v > 0 {
		stall = time.Duration(v) * time.Second
	}
	runCtx, abortRun := context.WithCancel(context.Background())
	defer abortRun()

	for si, st := range stages {
		bin := flavourBin(st.Flavour)
		if bin == "" {
			inconclusive = append(inconclusive, fmt.Sprintf("stage %s: no %s binary", st.Name, st.Flavour))
			continue
		}
		violFlavour[si] = st.Flavour
		procs := ncpu
		if st.MaxProcs > 0 && st.MaxProcs < procs {
			procs = st.MaxProcs
		}
		csize := st.ChunkSize
		if csize <= 0 {
			csize = (st.Cases + procs*3 - 1) / (procs * 3)
			if csize < 1 {
				csize = 1
			}
		}
		var chunks []chunk
		for from := 0; from < st.Cases; from += csize {
			to := from + csize
			if to > st.Cases {
				to = st.Cases
			}
			chunks = append(chunks, chunk{stage: si, from: from, to: to})
		}
		outcomes := make([]chunkOutcome, len(chunks))
		var wg sync.WaitGroup
		sem := make(chan struct{}, procs)
		stStart := time.Now()
		for ci := range chunks {
			wg.Add(1)
			sem <- struct{}{}
			go func(ci int) {
				defer wg.Done()
				defer func() { <-sem }()
				ch := chunks[ci]
				base := filepath.Join(workDir, fmt.Sprintf("s%d-c%d", si, ci))
				outPath, logPath, errPath := base+".out.json", base+".log", base+".stderr"
				if runCtx.Err() != nil {
					outcomes[ci] = chunkOutcome{chunk: ch, lastNo: -1, aborted: true}
					return
				}
				ctx, cancel := context.WithTimeout(runCtx, watchdog)
				defer cancel()
				stalled := false
				go func() {
					// progress monitor: the worker writes the number of the case it is working on to logPath
					last, lastChange := "", time.Now()
					t := time.NewTicker(5 * time.Second)
					defer t.Stop()
					for {
						select {
						case <-ctx.Done():
							return
						case <-t.C:
							b, _ := os.ReadFile(logPath)
							if cur := string(b); cur != last {
								last, lastChange = cur, time.Now()
							} else if time.Since(lastChange) > stall {
								stalled = true
								cancel()
								return
							}
						}
					}
				}()
				cmd := exec.CommandContext(ctx, bin, "worker", "-prop", p.ID, "-tier", tier, "-seed", strconv.FormatInt(seed, 10),
					"-stage", strconv.Itoa(si), "-from", strconv.Itoa(ch.from), "-to", strconv.Itoa(ch.to), "-out", outPath, "-log", logPath)
				env := os.Environ()
				if st.Flavour == "race" {
					env = append(env, "GORACE=halt_on_error=0 log_path="+base+".race")
				}
				if st.Flavour == "asan" {
					env = append(env, "ASAN_OPTIONS=detect_leaks=0:abort_on_error=0")
				}
				cmd.Env = env
				ef, _ := os.Create(errPath)
				cmd.Stderr = ef
				cmd.Stdout = ef
				err := cmd.Run()
				if ef != nil {
					ef.Close()
				}
				oc := chunkOutcome{chunk: ch, lastNo: -1}
				switch {
				case stalled:
					oc.timeout, oc.stalled = true, true
					abortRun()
				case ctx.Err() == context.DeadlineExceeded:
					oc.timeout = true
					abortRun()
				case runCtx.Err() != nil && ctx.Err() != nil:
					oc.aborted = true
				}
				if b, rerr := os.ReadFile(outPath); rerr == nil {
					var r WorkerResult
					if json.Unmarshal(b, &r) == nil {
						oc.res = &r
					}
				}
				_ = err // a race build exits with status 66 when it reported races: the result file decides
				if oc.res == nil || !oc.res.Done {
					if !oc.timeout && !oc.aborted {
						oc.crashed = true
					}
					if b, rerr := os.ReadFile(logPath); rerr == nil {
						if n, perr := strconv.Atoi(strings.TrimSpace(string(b))); perr == nil {
							oc.lastNo = n
						}
					}
					if b, rerr := os.ReadFile(errPath); rerr == nil {
						if len(b) > 6000 {
							b = b[:6000]
						}
						oc.stderr = string(b)
					}
				}
				if st.Flavour == "race" {
					oc.races = parseRaceLogs(base + ".race*")
					oc.raceWorker = true
				}
				outcomes[ci] = oc
			}(ci)
		}
		wg.Wait()
		stagesRun = append(stagesRun, st.Name)
		stEval := int64(0)
		for _, oc := range outcomes {
			if oc.res != nil {
				stEval += oc.res.Evaluations
				total.Evaluations += oc.res.Evaluations
				total.ExtraNT += oc.res.ExtraNT
				total.CasesRun += oc.res.CasesRun
				for _, h := range oc.res.NTHashes {
					if ntSampled && h%16 != 0 {
						continue
					}
					nt[h] = struct{}{}
				}
				if !ntSampled && len(nt) > 8000000 {
					// too many to hold: keep a 1/16 sample by hash value; its size (unscaled) is a lower bound of the distinct count
					ntSampled = true
					for h := range nt {
						if h%16 != 0 {
							delete(nt, h)
						}
					}
				}
				for k, v := range oc.res.Counters {
					if strings.HasPrefix(k, "max:") {
						if v > total.Counters[k] {
							total.Counters[k] = v
						}
					} else {
						total.Counters[k] += v
					}
				}
				for _, s := range oc.res.Samples {
					if len(total.Samples) < 5 {
						total.Samples = append(total.Samples, s)
					}
				}
				violations = append(violations, oc.res.Violations...)
			}
			if oc.stalled {
				inconclusive = append(inconclusive, fmt.Sprintf("stage %s cases %d-%d: no case finished for %s near case %d (operation does not terminate?); run stopped", st.Name, oc.chunk.from, oc.chunk.to, stall, oc.lastNo))
			} else if oc.timeout {
				inconclusive = append(inconclusive, fmt.Sprintf("stage %s cases %d-%d: watchdog (%s) fired near case %d; run stopped", st.Name, oc.chunk.from, oc.chunk.to, watchdog, oc.lastNo))
			} else if oc.aborted {
				total.Counters["chunks_not_run_after_watchdog"]++
			} else if oc.crashed {
				first := firstFatalLine(oc.stderr)
				violations = append(violations, Violation{Key: "crash:" + crashKey(first), Msg: "worker process died: " + first, Stage: si, CaseNo: oc.lastNo, Stderr: oc.stderr})
			}
			if oc.raceWorker {
				total.Counters["race_detector_workers_scanned"]++
				total.Counters["race_reports"] += 0
			}
			for _, r := range oc.races {
				total.Counters["race_reports"]++
				violations = append(violations, Violation{Key: r.key, Msg: "data race reported by the Go race detector", Stage: si, CaseNo: oc.chunk.from, Stderr: r.text,
					Desc: fmt.Sprintf("race log of worker running cases %d..%d", oc.chunk.from, oc.chunk.to-1)})
			}
		}
		stageInfo = append(stageInfo, map[string]interface{}{"name": st.Name, "flavour": st.Flavour, "cases": st.Cases, "evaluations": stEval,
			"workers": len(chunks), "wall_s": time.Since(stStart).Seconds()})
	}

	// ---- classify violations
	known := loadKnownFindings()
	knownSeen := map[string]knownFinding{}
	type vgroup struct {
		first Violation
		count int
	}
	groups := map[string]*vgroup{}
	var order []string
	for _, v := range violations {
		matched := false
		for _, kf := range known {
			if kf.Prop == p.ID && kf.Key == v.Key {
				knownSeen[kf.Key] = kf
				matched = true
				break
			}
		}
		if matched {
			continue
		}
		g, ok := groups[v.Key]
		if !ok {
			g = &vgroup{first: v}
			groups[v.Key] = g
			order = append(order, v.Key)
		}
		g.count++
	}

	exit := 0
	for _, kf := range known {
		if _, ok := knownSeen[kf.Key]; ok {
			fmt.Printf("KNOWN-FINDING: property=%s %s\n", p.ID, kf.Text)
		}
	}
	nViol := 0
	if len(order) > 0 {
		exit = 1
		_ = os.MkdirAll(filepath.Join(OutDir(), "replays"), 0o755)
		for i, k := range order {
			g := groups[k]
			nViol += g.count
			if i >= 12 {
				continue
			}
			rp := Replay{Property: p.ID, Tier: tier, Seed: seed, Stage: g.first.Stage, Flavour: violFlavour[g.first.Stage], CaseNo: g.first.CaseNo,
				Key: g.first.Key, Msg: g.first.Msg, Desc: g.first.Desc, Stderr: g.first.Stderr,
				How: fmt.Sprintf("cd %s && ./run.sh --replay <this file>   (re-generates case %d of stage %d from seed %d and re-runs the oracle verbosely)", VerifDir(), g.first.CaseNo, g.first.Stage, seed)}
			name := fmt.Sprintf("%s-%016x.json", p.ID, Hash64(p.ID, tier, seed, g.first.Stage, g.first.CaseNo, g.first.Key))
			path := filepath.Join(OutDir(), "replays", name)
			if err := WriteJSON(path, rp); err != nil {
				fmt.Printf("warning: cannot write replay: %v\n", err)
			}
			fmt.Printf("VIOLATION property=%s replay=%s\n", p.ID, path)
			fmt.Printf("  key=%s occurrences=%d first: %s\n", g.first.Key, g.count, oneLine(g.first.Msg, 600))
		}
	}

	distinctNT := int64(len(nt)) + total.ExtraNT
	if exit == 0 {
		if p.Conclude != nil {
			if r := p.Conclude(tier, total.Counters, stagesRun); r != "" {
				inconclusive = append(inconclusive, r)
			}
		}
		if total.Evaluations == 0 {
			inconclusive = append(inconclusive, "no evaluations")
		}
		if distinctNT < 2 {
			inconclusive = append(inconclusive, "fewer than 2 distinct non-trivial cases observed")
		}
	}

	// ---- evidence
	cov := map[string]interface{}{
		"evaluations":         total.Evaluations,
		"distinct_nontrivial": distinctNT,
		"rule":                p.Rule,
		"samples":             total.Samples,
		"cases_run":           total.CasesRun,
		"stages":              stageInfo,
		"hooks":               hooksState,
		"counters":            total.Counters,
	}
	if ntSampled {
		cov["distinct_nontrivial_note"] = "lower bound: more than 8 million distinct non-trivial cases were seen, so only those whose 64-bit key hash is divisible by 16 were kept and counted (unscaled)"
	}
	if len(total.Samples) == 0 {
		cov["samples"] = []interface{}{"(no sample recorded)"}
	}
	if p.Exhaustive != nil && p.Exhaustive(tier) {
		cov["exhaustive"] = true
	}
	if len(inconclusive) > 0 {
		cov["inconclusive"] = inconclusive
	}
	kfl := []string{}
	for k := range knownSeen {
		kfl = append(kfl, k)
	}
	sort.Strings(kfl)
	ev := map[string]interface{}{
		"property_id":    p.ID,
		"tier":           tier,
		"seed":           seed,
		"level":          p.Level,
		"coverage":       cov,
		"assumptions":    p.Assumptions,
		"wall_s":         time.Since(start).Seconds(),
		"violations":     nViol,
		"known_findings": kfl,
		"verdict":        map[bool]string{true: "held on everything explored", false: "violated"}[exit == 0],
	}
	if exit == 0 && len(inconclusive) > 0 {
		ev["verdict"] = "inconclusive"
	}
	_ = os.MkdirAll(filepath.Join(OutDir(), "evidence"), 0o755)
	if err := WriteJSON(filepath.Join(OutDir(), "evidence", p.ID+".json"), ev); err != nil {
		fmt.Printf("INCONCLUSIVE property=%s reason=cannot write evidence: %v\n", p.ID, err)
		return 2
	}

	if exit == 0 && len(inconclusive) > 0 {
		fmt.Printf("INCONCLUSIVE property=%s reason=%s\n", p.ID, strings.Join(inconclusive, "; "))
		return 2
	}
	fmt.Printf("%s %s seed=%d: evaluations=%d distinct_nontrivial=%d cases=%d violations=%d known_findings=%d wall=%.1fs hooks=%s\n",
		p.ID, tier, seed, total.Evaluations, distinctNT, total.CasesRun, nViol, len(knownSeen), time.Since(start).Seconds(), hooksState)
	keys := make([]string, 0, len(total.Counters))
	for k := range total.Counters {
		keys = append(keys, k)
	}
	sort.Strings(keys)
	var sb bytes.Buffer
	for _, k := range keys {
		fmt.Fprintf(&sb, " %s=%d", k, total.Counters[k])
	}
	fmt.Printf("  observed:%s\n", sb.String())
	return exit
}

func oneLine(s string, n int) string {
	s = strings.ReplaceAll(s, "\n", " | ")
	if len(s) > n {
		s = s[:n] + "…"
	}
	return s
}

func firstFatalLine(stderr string) string {
	for _, l := range strings.Split(stderr, "\n") {
		t := strings.TrimSpace(l)
		if strings.HasPrefix(t, "fatal error:") || strings.HasPrefix(t, "panic:") || strings.Contains(t, "ERROR: AddressSanitizer") || strings.HasPrefix(t, "runtime:") || strings.HasPrefix(t, "SIG") {
			return t
		}
	}
	for _, l := range strings.Split(stderr, "\n") {
		if strings.TrimSpace(l) != "" {
			return strings.TrimSpace(l)
		}
	}
	return "(no output)"
}

var nonWord = regexp.MustCompile(`[^A-Za-z]+`)

func crashKey(first string) string {
	k := nonWord.ReplaceAllString(first, "-")
	if len(k) > 48 {
		k = k[:48]
	}
	return strings.Trim(k, "-")
}

// RunReplay re-executes the case named by a replay file, verbosely.
func RunReplay(path string) int {
	b, err := os.ReadFile(path)
	if err != nil {
		fmt.Printf("cannot read replay: %v\n", err)
		return 2
	}
	var rp Replay
	if err := json.Unmarshal(b, &rp); err != nil {
		fmt.Printf("cannot parse replay: %v\n", err)
		return 2
	}
	p := Lookup(rp.Property)
	if p == nil {
		fmt.Printf("unknown property %s\n", rp.Property)
		return 2
	}
	if rp.CaseNo < 0 {
		fmt.Printf("replay has no case number (crash before the first case was logged)\n")
		return 2
	}
	if rp.Flavour != "" && rp.Flavour != "ptr" {
		if bin := flavourBin(rp.Flavour); bin != "" && os.Getenv("QV_REPLAY_CHILD") == "" {
			cmd := exec.Command(bin, "replay", path)
			cmd.Env = append(os.Environ(), "QV_REPLAY_CHILD=1")
			cmd.Stdout, cmd.Stderr = os.Stdout, os.Stderr
			if err := cmd.Run(); err != nil {
				if ee, ok := err.(*exec.ExitError); ok {
					return ee.ExitCode()
				}
				return 2
			}
			return 0
		}
	}
	stages := p.Stages(rp.Tier)
	name := ""
	if rp.Stage < len(stages) {
		name = stages[rp.Stage].Name
	}
	fmt.Printf("replaying %s tier=%s seed=%d stage=%d(%s) case=%d (recorded key=%s)\n", rp.Property, rp.Tier, rp.Seed, rp.Stage, name, rp.CaseNo, rp.Key)
	w := NewWorker()
	c := NewCase(p, w, rp.Tier, rp.Seed, rp.Stage, name, rp.CaseNo)
	c.Verbose = true
	pv, stack := Guard(func() { p.RunCase(c) })
	if pv != nil {
		c.Fail("panic:harness-or-unguarded", "unguarded panic: %v\n%s", pv, trimStack(stack))
	}
	if d := c.description(); d != nil {
		db, _ := json.MarshalIndent(d, "  ", " ")
		fmt.Printf("  case: %s\n", db)
	}
	if c.Failed() {
		for _, v := range c.violations {
			fmt.Printf("VIOLATION property=%s replay=%s\n  key=%s %s\n", p.ID, path, v.Key, v.Msg)
		}
		return 1
	}
	fmt.Printf("case passed (no violation reproduced)\n")
	return 0
}
