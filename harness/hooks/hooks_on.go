//go:build verif

// Package hooks bridges to the verif-tagged hooks inside qframe.
package hooks

import "github.com/tobgu/qframe"

const Available = true

type IndexInfo struct {
	Index []uint32
	Cap   int
	Addr  uintptr
}

func Index(qf qframe.QFrame) IndexInfo {
	i := qframe.VerifIndex(qf)
	return IndexInfo{Index: i.Index, Cap: i.Cap, Addr: i.Addr}
}

func CheckInvariants(qf qframe.QFrame) error { return qframe.VerifCheckInvariants(qf) }

func AppendFloat64f(b []byte, f float64) ([]byte, bool) {
	return qframe.VerifAppendFloat64f(b, f), true
}

func RowHash(qf qframe.QFrame, cols []string, groupByNull bool, row int) (uint32, bool) {
	h, err := qframe.VerifRowHash(qf, cols, groupByNull, row)
	return h, err == nil
}

func SortCounters() (heap, ninther, insertion uint64) { return qframe.VerifSortCounters() }
func ResetSortCounters()                              { qframe.VerifResetSortCounters() }
