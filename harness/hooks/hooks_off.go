//go:build !verif

// Package hooks: stubs used when the verif hooks inside qframe are not available.
package hooks

import "github.com/tobgu/qframe"

const Available = false

type IndexInfo struct {
	Index []uint32
	Cap   int
	Addr  uintptr
}

func Index(qf qframe.QFrame) IndexInfo                  { return IndexInfo{} }
func CheckInvariants(qf qframe.QFrame) error            { return nil }
func AppendFloat64f(b []byte, f float64) ([]byte, bool) { return b, false }
func RowHash(qf qframe.QFrame, cols []string, groupByNull bool, row int) (uint32, bool) {
	return 0, false
}
func SortCounters() (heap, ninther, insertion uint64) { return 0, 0, 0 }
func ResetSortCounters()                              {}
