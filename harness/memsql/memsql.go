// Package memsql is a small in-memory database/sql driver that records every statement it
// receives, stores inserted rows, serves result sets and can inject faults at chosen points.
package memsql

import (
	"context"
	"database/sql"
	"database/sql/driver"
	"errors"
	"fmt"
	"io"
	"regexp"
	"strings"
	"sync"
)

// Event is one statement received by the driver.
type Event struct {
	Kind  string // prepare | exec | query
	Query string
	Args  []driver.Value
}

// Table is a stored table.
type Table struct {
	Cols []string
	Rows [][]driver.Value
}

// Faults selects where the driver starts failing (-1 / false = never).
type Faults struct {
	Prepare    bool // every Prepare fails
	Query      bool // Stmt.Query fails
	NextAt     int  // Rows.Next returns an error instead of row NextAt (NextAt == number of rows: instead of io.EOF)
	BadValueAt int  // row BadValueAt carries a value of an unsupported type in its first column
	ExecAt     int  // the ExecAt-th Exec (0 based) fails
	// ExtraSets > 0 makes every query answer with 1+ExtraSets result sets (the table again); NextSetAt is the number of
	// the first advance to another result set that fails (driver.RowsNextResultSet).
	ExtraSets int
	NextSetAt int
}

// NoFaults is the fault-free setting.
func NoFaults() Faults { return Faults{NextAt: -1, BadValueAt: -1, ExecAt: -1, NextSetAt: -1} }

// ErrInjected is the error returned at fault points.
var ErrInjected = errors.New("memsql: injected fault")

// DB is the state of one in-memory database.
type DB struct {
	mu     sync.Mutex
	Tables map[string]*Table
	Log    []Event
	Faults Faults
	execs  int
	// Fired counts the injected faults that were actually returned to the caller.
	Fired int

	// Result, when set, is served for every query regardless of its text.
	Result *Table

	// TextAsBytes makes the driver deliver text values as []byte slices of one buffer that it reuses
	// (and overwrites) for every row, as drivers reading from a network buffer do. database/sql allows this:
	// such values are only valid until the next call to Next.
	TextAsBytes bool
}

// New creates an empty database.
func New() *DB { return &DB{Tables: map[string]*Table{}, Faults: NoFaults()} }

// Open returns a *sql.DB backed by the in-memory database.
func (db *DB) Open() *sql.DB { return sql.OpenDB(connector{db}) }

type connector struct{ db *DB }

func (c connector) Connect(context.Context) (driver.Conn, error) { return &conn{db: c.db}, nil }
func (c connector) Driver() driver.Driver                        { return drv{c.db} }

type drv struct{ db *DB }

func (d drv) Open(string) (driver.Conn, error) { return &conn{db: d.db}, nil }

type conn struct{ db *DB }

func (c *conn) Prepare(query string) (driver.Stmt, error) {
	c.db.mu.Lock()
	defer c.db.mu.Unlock()
	c.db.Log = append(c.db.Log, Event{Kind: "prepare", Query: query})
	if c.db.Faults.Prepare {
		c.db.Fired++
		return nil, ErrInjected
	}
	return &stmt{db: c.db, query: query}, nil
}
func (c *conn) Close() error              { return nil }
func (c *conn) Begin() (driver.Tx, error) { return tx{}, nil }

type tx struct{}

func (tx) Commit() error   { return nil }
func (tx) Rollback() error { return nil }

type stmt struct {
	db    *DB
	query string
}

func (s *stmt) Close() error  { return nil }
func (s *stmt) NumInput() int { return -1 }

var insertRe = regexp.MustCompile(`(?is)^\s*INSERT\s+INTO\s+(.*?)\s*\((.*)\)\s*VALUES\s*\((.*)\)\s*;?\s*$`)

// SplitIdent removes the escape character around an identifier.
func SplitIdent(s string, esc rune) string {
	if esc == 0 {
		return s
	}
	e := string(esc)
	if len(s) >= 2*len(e) && strings.HasPrefix(s, e) && strings.HasSuffix(s, e) {
		return s[len(e) : len(s)-len(e)]
	}
	return s
}

func (s *stmt) Exec(args []driver.Value) (driver.Result, error) {
	s.db.mu.Lock()
	defer s.db.mu.Unlock()
	cp := append([]driver.Value(nil), args...)
	s.db.Log = append(s.db.Log, Event{Kind: "exec", Query: s.query, Args: cp})
	n := s.db.execs
	s.db.execs++
	if s.db.Faults.ExecAt >= 0 && n >= s.db.Faults.ExecAt {
		s.db.Fired++
		return nil, ErrInjected
	}
	if m := insertRe.FindStringSubmatch(s.query); m != nil {
		t, ok := s.db.Tables[m[1]]
		if !ok {
			cols := strings.Split(m[2], ",")
			for i := range cols {
				cols[i] = strings.TrimSpace(cols[i])
			}
			t = &Table{Cols: cols}
			s.db.Tables[m[1]] = t
		}
		t.Rows = append(t.Rows, cp)
	}
	return driver.RowsAffected(1), nil
}

func (s *stmt) Query(args []driver.Value) (driver.Rows, error) {
	s.db.mu.Lock()
	defer s.db.mu.Unlock()
	s.db.Log = append(s.db.Log, Event{Kind: "query", Query: s.query, Args: append([]driver.Value(nil), args...)})
	if s.db.Faults.Query {
		s.db.Fired++
		return nil, ErrInjected
	}
	t := s.db.Result
	if t == nil {
		// "SELECT * FROM <table>"
		name := strings.TrimPrefix(s.query, "SELECT * FROM ")
		t = s.db.Tables[name]
		if t == nil {
			return nil, fmt.Errorf("memsql: no such table %q", name)
		}
	}
	return &rows{db: s.db, t: t}, nil
}

type rows struct {
	db  *DB
	t   *Table
	pos int
	set int
	buf []byte
}

// HasNextResultSet and NextResultSet implement driver.RowsNextResultSet.
func (r *rows) HasNextResultSet() bool { return r.set < r.db.Faults.ExtraSets }

func (r *rows) NextResultSet() error {
	f := r.db.Faults
	if f.NextSetAt >= 0 && r.set >= f.NextSetAt {
		r.db.Fired++
		return ErrInjected
	}
	if r.set >= f.ExtraSets {
		return io.EOF
	}
	r.set++
	r.pos = 0
	return nil
}

func (r *rows) Columns() []string { return append([]string(nil), r.t.Cols...) }
func (r *rows) Close() error      { return nil }

// Unsupported is a value type that qframe cannot scan.
type Unsupported struct{ X int }

func (r *rows) Next(dest []driver.Value) error {
	f := r.db.Faults
	if f.NextAt >= 0 && r.pos >= f.NextAt {
		r.db.Fired++
		return ErrInjected
	}
	if r.pos >= len(r.t.Rows) {
		return io.EOF
	}
	copy(dest, r.t.Rows[r.pos])
	if r.db.TextAsBytes {
		// invalidate what the previous row pointed to, then lay out this row's text in the same buffer
		for i := range r.buf {
			r.buf[i] = '#'
		}
		need := 0
		for _, v := range dest {
			if sv, ok := v.(string); ok {
				need += len(sv)
			}
		}
		if cap(r.buf) < need {
			r.buf = make([]byte, need, 2*need+16)
		}
		r.buf = r.buf[:need]
		off := 0
		for i, v := range dest {
			if sv, ok := v.(string); ok {
				n := copy(r.buf[off:], sv)
				dest[i] = r.buf[off : off+n : off+n]
				off += n
			}
		}
	}
	if f.BadValueAt >= 0 && r.pos == f.BadValueAt && len(dest) > 0 {
		dest[0] = []int{1} // not a valid driver.Value for a Scanner based on basic types
	}
	r.pos++
	return nil
}
