package model

// An instrumented transliteration of the pre-pdqsort standard library quicksort that qframe
// copied into internal/sort. It is NOT an oracle: it is only used to construct adversarial
// inputs (McIlroy, "A Killer Adversary for Quicksort") that are then fed as plain data to the
// real Sort; whether they reach the heapsort fallback there is measured by the sorter hook.

type refSorter struct {
	perm []int
	less func(a, b int) bool // compares items (not positions)
}

func (s *refSorter) Less(i, j int) bool { return s.less(s.perm[i], s.perm[j]) }
func (s *refSorter) Swap(i, j int)      { s.perm[i], s.perm[j] = s.perm[j], s.perm[i] }

func rsInsertionSort(data *refSorter, a, b int) {
	for i := a + 1; i < b; i++ {
		for j := i; j > a && data.Less(j, j-1); j-- {
			data.Swap(j, j-1)
		}
	}
}

func rsSiftDown(data *refSorter, lo, hi, first int) {
	root := lo
	for {
		child := 2*root + 1
		if child >= hi {
			break
		}
		if child+1 < hi && data.Less(first+child, first+child+1) {
			child++
		}
		if !data.Less(first+root, first+child) {
			return
		}
		data.Swap(first+root, first+child)
		root = child
	}
}

func rsHeapSort(data *refSorter, a, b int) {
	first := a
	lo := 0
	hi := b - a
	for i := (hi - 1) / 2; i >= 0; i-- {
		rsSiftDown(data, i, hi, first)
	}
	for i := hi - 1; i >= 0; i-- {
		data.Swap(first, first+i)
		rsSiftDown(data, lo, i, first)
	}
}

func rsMedianOfThree(data *refSorter, m1, m0, m2 int) {
	if data.Less(m1, m0) {
		data.Swap(m1, m0)
	}
	if data.Less(m2, m1) {
		data.Swap(m2, m1)
		if data.Less(m1, m0) {
			data.Swap(m1, m0)
		}
	}
}

func rsDoPivot(data *refSorter, lo, hi int) (midlo, midhi int) {
	m := int(uint(lo+hi) >> 1)
	if hi-lo > 40 {
		s := (hi - lo) / 8
		rsMedianOfThree(data, lo, lo+s, lo+2*s)
		rsMedianOfThree(data, m, m-s, m+s)
		rsMedianOfThree(data, hi-1, hi-1-s, hi-1-2*s)
	}
	rsMedianOfThree(data, lo, m, hi-1)
	pivot := lo
	a, c := lo+1, hi-1
	for ; a < c && data.Less(a, pivot); a++ {
	}
	b := a
	for {
		for ; b < c && !data.Less(pivot, b); b++ {
		}
		for ; b < c && data.Less(pivot, c-1); c-- {
		}
		if b >= c {
			break
		}
		data.Swap(b, c-1)
		b++
		c--
	}
	protect := hi-c < 5
	if !protect && hi-c < (hi-lo)/4 {
		dups := 0
		if !data.Less(pivot, hi-1) {
			data.Swap(c, hi-1)
			c++
			dups++
		}
		if !data.Less(b-1, pivot) {
			b--
			dups++
		}
		if !data.Less(m, pivot) {
			data.Swap(m, b-1)
			b--
			dups++
		}
		protect = dups > 1
	}
	if protect {
		for {
			for ; a < b && !data.Less(b-1, pivot); b-- {
			}
			for ; a < b && data.Less(a, pivot); a++ {
			}
			if a >= b {
				break
			}
			data.Swap(a, b-1)
			a++
			b--
		}
	}
	data.Swap(pivot, b-1)
	return b - 1, c
}

func rsQuickSort(data *refSorter, a, b, maxDepth int, heapEntries *int) {
	for b-a > 12 {
		if maxDepth == 0 {
			*heapEntries++
			rsHeapSort(data, a, b)
			return
		}
		maxDepth--
		mlo, mhi := rsDoPivot(data, a, b)
		if mlo-a < b-mhi {
			rsQuickSort(data, a, mlo, maxDepth, heapEntries)
			a = mhi
		} else {
			rsQuickSort(data, mhi, b, maxDepth, heapEntries)
			b = mlo
		}
	}
	if b-a > 1 {
		for i := a + 6; i < b; i++ {
			if data.Less(i, i-6) {
				data.Swap(i, i-6)
			}
		}
		rsInsertionSort(data, a, b)
	}
}

func rsMaxDepth(n int) int {
	var depth int
	for i := n; i > 0; i >>= 1 {
		depth++
	}
	return depth * 2
}

// AntiQuicksort returns n distinct values 0..n-1 arranged so that the replica sorter
// degenerates; heap reports how often the replica entered its heapsort fallback.
func AntiQuicksort(n int) (vals []int, heap int) {
	const gas = 1 << 40
	val := make([]int, n)
	for i := range val {
		val[i] = gas
	}
	nsolid := 0
	candidate := 0
	s := &refSorter{perm: make([]int, n)}
	for i := range s.perm {
		s.perm[i] = i
	}
	s.less = func(x, y int) bool {
		if val[x] == gas && val[y] == gas {
			if x == candidate {
				val[x] = nsolid
			} else {
				val[y] = nsolid
			}
			nsolid++
		}
		if val[x] == gas {
			candidate = x
		} else if val[y] == gas {
			candidate = y
		}
		return val[x] < val[y]
	}
	rsQuickSort(s, 0, n, rsMaxDepth(n), &heap)
	for i := range val {
		if val[i] == gas {
			val[i] = nsolid
			nsolid++
		}
	}
	return val, heap
}
