package model

import (
	"math"
	"strings"
	"unicode/utf8"
)

// NatCmp compares two non-null cells of the same column in the natural order of the type
// (numeric, byte-wise, false<true, declared rank for strict enums).
func NatCmp(c *Col, i, j int) int {
	switch c.Kind {
	case KInt:
		return cmp3Int(c.I[i], c.I[j])
	case KFloat:
		a, b := c.F[i], c.F[j]
		if a < b {
			return -1
		}
		if a > b {
			return 1
		}
		return 0
	case KBool:
		a, b := c.B[i], c.B[j]
		if a == b {
			return 0
		}
		if !a {
			return -1
		}
		return 1
	case KEnum:
		if c.Strict() {
			return cmp3Int(EnumRank(c, *c.S[i]), EnumRank(c, *c.S[j]))
		}
		return strings.Compare(*c.S[i], *c.S[j])
	default:
		return strings.Compare(*c.S[i], *c.S[j])
	}
}

// SortCmp is the comparator of one sort key written from the statement of C03: null/NaN
// smaller than every value (larger with nullLast); reverse inverts the complete order.
func SortCmp(c *Col, i, j int, reverse, nullLast bool) int {
	ni, nj := c.IsNull(i), c.IsNull(j)
	var r int
	switch {
	case ni && nj:
		r = 0
	case ni:
		r = -1
		if nullLast {
			r = 1
		}
	case nj:
		r = 1
		if nullLast {
			r = -1
		}
	default:
		r = NatCmp(c, i, j)
	}
	if reverse {
		r = -r
	}
	return r
}

// KeyEq is key equality for GroupBy/Distinct: == on values (so 0.0 equals -0.0), null/NaN
// equal each other only when nullEq is set.
func KeyEq(c *Col, i, j int, nullEq bool) bool {
	ni, nj := c.IsNull(i), c.IsNull(j)
	if ni || nj {
		return ni && nj && nullEq
	}
	switch c.Kind {
	case KInt:
		return c.I[i] == c.I[j]
	case KFloat:
		return c.F[i] == c.F[j]
	case KBool:
		return c.B[i] == c.B[j]
	default:
		return *c.S[i] == *c.S[j]
	}
}

// KeyString is a canonical string of the key cell such that two non-null cells are KeyEq iff their strings are equal.
func KeyString(c *Col, i int) string {
	if c.IsNull(i) {
		return "\x00null"
	}
	switch c.Kind {
	case KFloat:
		f := c.F[i]
		if f == 0 {
			f = 0 // merge -0 and +0
		}
		return "f" + strings.ToUpper(strconvFloatBits(f))
	case KString, KEnum:
		return "s" + *c.S[i]
	default:
		return "v" + c.CellString(i)
	}
}

func strconvFloatBits(f float64) string {
	const hexd = "0123456789abcdef"
	b := math.Float64bits(f)
	out := make([]byte, 16)
	for i := 15; i >= 0; i-- {
		out[i] = hexd[b&0xf]
		b >>= 4
	}
	return string(out)
}

// Partition computes the reference key classes (lists of row numbers in frame order,
// classes ordered by their first row). With nullEq false every row with a null key cell is a class of its own.
func Partition(f *Frame, keys []string, nullEq bool) [][]int {
	n := f.Len()
	if len(keys) == 0 {
		if n == 0 {
			return nil
		}
		all := make([]int, n)
		for i := range all {
			all[i] = i
		}
		return [][]int{all}
	}
	cols := make([]*Col, len(keys))
	for i, k := range keys {
		cols[i] = f.Col(k)
	}
	idx := map[string]int{}
	var classes [][]int
	var sb strings.Builder
	for r := 0; r < n; r++ {
		sb.Reset()
		hasNull := false
		for _, c := range cols {
			if c.IsNull(r) {
				hasNull = true
			}
			ks := KeyString(c, r)
			sb.WriteString(strconvItoa(len(ks)))
			sb.WriteByte(':')
			sb.WriteString(ks)
		}
		if hasNull && !nullEq {
			classes = append(classes, []int{r})
			continue
		}
		k := sb.String()
		if ci, ok := idx[k]; ok {
			classes[ci] = append(classes[ci], r)
		} else {
			idx[k] = len(classes)
			classes = append(classes, []int{r})
		}
	}
	return classes
}

func strconvItoa(n int) string {
	if n == 0 {
		return "0"
	}
	var b [20]byte
	i := len(b)
	for n > 0 {
		i--
		b[i] = byte('0' + n%10)
		n /= 10
	}
	return string(b[i:])
}

// ReplaceInvalidUTF8 replaces every invalid byte (each one separately) by U+FFFD.
func ReplaceInvalidUTF8(s string) string {
	var sb strings.Builder
	for i := 0; i < len(s); {
		r, w := utf8.DecodeRuneInString(s[i:])
		if r == utf8.RuneError && w == 1 {
			sb.WriteString("�")
		} else {
			sb.WriteString(s[i : i+w])
		}
		i += w
	}
	return sb.String()
}
