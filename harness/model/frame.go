// Package model holds the shadow model of a frame (logical rows only: no
// index, no sharing), generators for hostile data and the bridge to real frames.
package model

import (
	"fmt"
	"math"
	"strconv"
	"strings"
)

// Kind is a column type.
type Kind int

const (
	KInt Kind = iota
	KFloat
	KBool
	KString
	KEnum
)

var AllKinds = []Kind{KInt, KFloat, KBool, KString, KEnum}

func (k Kind) String() string {
	switch k {
	case KInt:
		return "int"
	case KFloat:
		return "float"
	case KBool:
		return "bool"
	case KString:
		return "string"
	case KEnum:
		return "enum"
	}
	return "?"
}

// KindOf parses a qframe data type name.
func KindOf(s string) (Kind, bool) {
	for _, k := range AllKinds {
		if k.String() == s {
			return k, true
		}
	}
	return 0, false
}

// Col is a shadow column. S is used by string and enum columns (nil = null).
type Col struct {
	Name string
	Kind Kind
	I    []int
	F    []float64
	B    []bool
	S    []*string

	// Enum metadata, only meaningful when EnumKnown.
	EnumKnown bool
	EnumVals  []string // declared values in rank order; nil/empty = derived (non strict) enum
}

// Strict reports whether the column is a declared (strict) enum.
func (c *Col) Strict() bool { return c.Kind == KEnum && c.EnumKnown && len(c.EnumVals) > 0 }

// Len returns the number of cells.
func (c *Col) Len() int {
	switch c.Kind {
	case KInt:
		return len(c.I)
	case KFloat:
		return len(c.F)
	case KBool:
		return len(c.B)
	default:
		return len(c.S)
	}
}

// IsNull reports whether cell i is null (NaN for floats).
func (c *Col) IsNull(i int) bool {
	switch c.Kind {
	case KFloat:
		return math.IsNaN(c.F[i])
	case KString, KEnum:
		return c.S[i] == nil
	}
	return false
}

// CellString renders cell i for messages.
func (c *Col) CellString(i int) string {
	switch c.Kind {
	case KInt:
		return strconv.Itoa(c.I[i])
	case KFloat:
		if math.IsNaN(c.F[i]) {
			return "NaN"
		}
		return strconv.FormatFloat(c.F[i], 'g', -1, 64)
	case KBool:
		return strconv.FormatBool(c.B[i])
	default:
		if c.S[i] == nil {
			return "null"
		}
		return strconv.Quote(*c.S[i])
	}
}

// CellEq compares cell i of c with cell j of d (same kind assumed): NaN equals NaN,
// other floats by bit pattern, null != "".
func CellEq(c *Col, i int, d *Col, j int) bool {
	switch c.Kind {
	case KInt:
		return c.I[i] == d.I[j]
	case KFloat:
		a, b := c.F[i], d.F[j]
		if math.IsNaN(a) || math.IsNaN(b) {
			return math.IsNaN(a) && math.IsNaN(b)
		}
		return math.Float64bits(a) == math.Float64bits(b)
	case KBool:
		return c.B[i] == d.B[j]
	default:
		a, b := c.S[i], d.S[j]
		if a == nil || b == nil {
			return a == nil && b == nil
		}
		return *a == *b
	}
}

// NewCol allocates a column with n zero cells.
func NewCol(name string, k Kind, n int) *Col {
	c := &Col{Name: name, Kind: k}
	switch k {
	case KInt:
		c.I = make([]int, n)
	case KFloat:
		c.F = make([]float64, n)
	case KBool:
		c.B = make([]bool, n)
	default:
		c.S = make([]*string, n)
	}
	return c
}

// Set copies cell j of src into cell i.
func (c *Col) Set(i int, src *Col, j int) {
	switch c.Kind {
	case KInt:
		c.I[i] = src.I[j]
	case KFloat:
		c.F[i] = src.F[j]
	case KBool:
		c.B[i] = src.B[j]
	default:
		c.S[i] = src.S[j]
	}
}

// Clone deep-copies the column (string contents are immutable and shared).
func (c *Col) Clone() *Col {
	d := &Col{Name: c.Name, Kind: c.Kind, EnumKnown: c.EnumKnown}
	d.I = append([]int(nil), c.I...)
	d.F = append([]float64(nil), c.F...)
	d.B = append([]bool(nil), c.B...)
	d.S = append([]*string(nil), c.S...)
	d.EnumVals = append([]string(nil), c.EnumVals...)
	return d
}

// Take returns a new column with the cells at the given positions.
func (c *Col) Take(rows []int) *Col {
	d := NewCol(c.Name, c.Kind, len(rows))
	d.EnumKnown, d.EnumVals = c.EnumKnown, c.EnumVals
	for i, r := range rows {
		d.Set(i, c, r)
	}
	return d
}

// Frame is a shadow frame.
type Frame struct {
	Cols []*Col
}

// Len returns the number of rows (0 for a frame without columns).
func (f *Frame) Len() int {
	if len(f.Cols) == 0 {
		return 0
	}
	return f.Cols[0].Len()
}

// Col finds a column by name.
func (f *Frame) Col(name string) *Col {
	for _, c := range f.Cols {
		if c.Name == name {
			return c
		}
	}
	return nil
}

// Names lists the column names.
func (f *Frame) Names() []string {
	out := make([]string, len(f.Cols))
	for i, c := range f.Cols {
		out[i] = c.Name
	}
	return out
}

// Clone deep-copies the frame.
func (f *Frame) Clone() *Frame {
	g := &Frame{}
	for _, c := range f.Cols {
		g.Cols = append(g.Cols, c.Clone())
	}
	return g
}

// Take returns the frame restricted to the given rows, in that order.
func (f *Frame) Take(rows []int) *Frame {
	g := &Frame{}
	for _, c := range f.Cols {
		g.Cols = append(g.Cols, c.Take(rows))
	}
	return g
}

// IDs returns the values of the unique id column.
func (f *Frame) IDs() []int {
	c := f.Col(IDCol)
	if c == nil {
		return nil
	}
	return c.I
}

// IDCol is the name of the unique row id column.
const IDCol = "__id"

// Diff describes the first difference between two frames ("" if none).
// Enum metadata is not compared.
func Diff(want, got *Frame) string {
	if len(want.Cols) != len(got.Cols) {
		return fmt.Sprintf("column count: want %d %v, got %d %v", len(want.Cols), want.Names(), len(got.Cols), got.Names())
	}
	for i, wc := range want.Cols {
		gc := got.Cols[i]
		if wc.Name != gc.Name {
			return fmt.Sprintf("column %d name: want %q, got %q", i, wc.Name, gc.Name)
		}
		if wc.Kind != gc.Kind {
			return fmt.Sprintf("column %q type: want %s, got %s", wc.Name, wc.Kind, gc.Kind)
		}
		if wc.Len() != gc.Len() {
			return fmt.Sprintf("column %q length: want %d, got %d", wc.Name, wc.Len(), gc.Len())
		}
	}
	for _, wc := range want.Cols {
		gc := got.Col(wc.Name)
		for r := 0; r < wc.Len(); r++ {
			if !CellEq(wc, r, gc, r) {
				return fmt.Sprintf("column %q row %d: want %s, got %s", wc.Name, r, wc.CellString(r), gc.CellString(r))
			}
		}
	}
	return ""
}

// Describe renders the frame in a JSON-safe way (at most maxRows rows).
func (f *Frame) Describe(maxRows int) map[string]interface{} {
	cols := []interface{}{}
	n := f.Len()
	for _, c := range f.Cols {
		cells := []string{}
		for r := 0; r < n && r < maxRows; r++ {
			cells = append(cells, c.CellString(r))
		}
		d := map[string]interface{}{"name": strconv.Quote(c.Name), "type": c.Kind.String(), "cells": strings.Join(cells, " ")}
		if c.Kind == KEnum && c.EnumKnown {
			d["enum_values"] = fmt.Sprintf("%q", c.EnumVals)
		}
		cols = append(cols, d)
	}
	return map[string]interface{}{"rows": n, "shown": minInt(n, maxRows), "columns": cols}
}

func minInt(a, b int) int {
	if a < b {
		return a
	}
	return b
}

// StrP returns a pointer to a copy of s.
func StrP(s string) *string { return &s }
