package model

import (
	"fmt"
	"math"
	"math/rand"
	"regexp"
	"strings"

	"github.com/tobgu/qframe"
	"github.com/tobgu/qframe/types"

	"qverif/fw"
)

// LikeRef is the reference semantics of like/ilike written from the property statement.
func LikeRef(pattern, s string, caseSensitive bool) (bool, error) {
	if regexp.QuoteMeta(pattern) != pattern {
		p := pattern
		if strings.HasPrefix(p, "%") {
			p = p[1:]
		} else {
			p = "^" + p
		}
		if strings.HasSuffix(pattern, "%") && len(p) > 0 {
			p = p[:len(p)-1]
		} else if !strings.HasSuffix(pattern, "%") {
			p = p + "$"
		}
		if !caseSensitive {
			p = "(?i)" + p
		}
		re, err := regexp.Compile(p)
		if err != nil {
			return false, err
		}
		return re.MatchString(s), nil
	}
	start := strings.HasPrefix(pattern, "%")
	end := strings.HasSuffix(pattern, "%")
	lit := strings.TrimSuffix(strings.TrimPrefix(pattern, "%"), "%")
	if !caseSensitive {
		lit = strings.ToUpper(lit)
		s = strings.ToUpper(s)
	}
	switch {
	case start && end:
		return strings.Contains(s, lit), nil
	case start:
		return strings.HasSuffix(s, lit), nil
	case end:
		return strings.HasPrefix(s, lit), nil
	}
	return s == lit, nil
}

// Clause is the harness' own representation of a filter clause tree.
type Clause struct {
	Op   string // leaf | and | or | not | null
	Subs []*Clause

	Col     string
	Cmp     string // built-in comparator name, or "fn1" / "fn2"
	ArgKind string // none | int | float | bool | string | ints | floats | strings | col
	ArgI    int
	ArgF    float64
	ArgB    bool
	ArgS    string
	ListI   []int
	ListS   []string
	Iface   bool // pass list as []interface{}
	ArgCol  string
	Inverse bool
	Salt    uint64
	Pct     uint64
}

func (c *Clause) String() string {
	switch c.Op {
	case "null":
		return "Null()"
	case "and", "or":
		parts := make([]string, len(c.Subs))
		for i, s := range c.Subs {
			parts[i] = s.String()
		}
		return fmt.Sprintf("%s(%s)", strings.Title(c.Op), strings.Join(parts, ", "))
	case "not":
		return fmt.Sprintf("Not(%s)", c.Subs[0].String())
	}
	arg := ""
	switch c.ArgKind {
	case "int":
		arg = fmt.Sprintf("%d", c.ArgI)
	case "float":
		arg = fmt.Sprintf("float64(%g)", c.ArgF)
	case "bool":
		arg = fmt.Sprintf("%v", c.ArgB)
	case "string":
		arg = fmt.Sprintf("%q", c.ArgS)
	case "ints":
		arg = fmt.Sprintf("[]int%v", c.ListI)
	case "floats":
		arg = fmt.Sprintf("[]float64%v", c.ListI)
	case "strings":
		arg = fmt.Sprintf("[]string%q", c.ListS)
	case "col":
		arg = fmt.Sprintf("ColumnName(%q)", c.ArgCol)
	}
	if c.Iface {
		arg = "[]interface{}:" + arg
	}
	cmp := c.Cmp
	if cmp == "fn1" || cmp == "fn2" {
		cmp = fmt.Sprintf("%s(hash%%100<%d)", cmp, c.Pct)
	}
	inv := ""
	if c.Inverse {
		inv = " Inverse"
	}
	return fmt.Sprintf("{%q %s %s%s}", c.Col, cmp, arg, inv)
}

func hashStrP(salt uint64, s *string) uint64 {
	if s == nil {
		return fw.Hash64(salt, "<nil>")
	}
	return fw.Hash64(salt, "s", *s)
}

func hashF(salt uint64, f float64) uint64 {
	if math.IsNaN(f) {
		return fw.Hash64(salt, "nan")
	}
	return fw.Hash64(salt, math.Float64bits(f))
}

// Real builds the qframe clause. kindOf gives the column kinds (needed for custom functions).
func (c *Clause) Real(kinds map[string]Kind) qframe.FilterClause {
	switch c.Op {
	case "null":
		return qframe.Null()
	case "and":
		subs := make([]qframe.FilterClause, len(c.Subs))
		for i, s := range c.Subs {
			subs[i] = s.Real(kinds)
		}
		return qframe.And(subs...)
	case "or":
		subs := make([]qframe.FilterClause, len(c.Subs))
		for i, s := range c.Subs {
			subs[i] = s.Real(kinds)
		}
		return qframe.Or(subs...)
	case "not":
		return qframe.Not(c.Subs[0].Real(kinds))
	}
	f := qframe.Filter{Column: c.Col, Inverse: c.Inverse}
	salt, pct := c.Salt, c.Pct
	switch c.Cmp {
	case "fn1":
		switch kinds[c.Col] {
		case KInt:
			f.Comparator = func(x int) bool { return fw.Hash64(salt, x)%100 < pct }
		case KFloat:
			f.Comparator = func(x float64) bool { return hashF(salt, x)%100 < pct }
		case KBool:
			f.Comparator = func(x bool) bool { return fw.Hash64(salt, x)%100 < pct }
		default:
			f.Comparator = func(x *string) bool { return hashStrP(salt, x)%100 < pct }
		}
	case "fn2":
		switch kinds[c.Col] {
		case KInt:
			f.Comparator = func(x, y int) bool { return fw.Hash64(salt, x, y)%100 < pct }
		case KFloat:
			f.Comparator = func(x, y float64) bool { return (hashF(salt, x)^hashF(salt+1, y))%100 < pct }
		case KBool:
			f.Comparator = func(x, y bool) bool { return fw.Hash64(salt, x, y)%100 < pct }
		default:
			f.Comparator = func(x, y *string) bool { return (hashStrP(salt, x)^hashStrP(salt+1, y))%100 < pct }
		}
	default:
		f.Comparator = c.Cmp
	}
	switch c.ArgKind {
	case "int":
		f.Arg = c.ArgI
	case "float":
		f.Arg = c.ArgF
	case "bool":
		f.Arg = c.ArgB
	case "string":
		f.Arg = c.ArgS
	case "ints":
		if c.Iface {
			l := make([]interface{}, len(c.ListI))
			for i, v := range c.ListI {
				l[i] = v
			}
			f.Arg = l
		} else {
			f.Arg = append([]int(nil), c.ListI...)
		}
	case "floats":
		if c.Iface {
			l := make([]interface{}, len(c.ListI))
			for i, v := range c.ListI {
				l[i] = float64(v)
			}
			f.Arg = l
		} else {
			l := make([]float64, len(c.ListI))
			for i, v := range c.ListI {
				l[i] = float64(v)
			}
			f.Arg = l
		}
	case "strings":
		if c.Iface {
			l := make([]interface{}, len(c.ListS))
			for i, v := range c.ListS {
				l[i] = v
			}
			f.Arg = l
		} else {
			f.Arg = append([]string(nil), c.ListS...)
		}
	case "col":
		f.Arg = types.ColumnName(c.ArgCol)
	}
	return qframe.Filter(f)
}

func cmpOrd(cmp string, c int) bool {
	switch cmp {
	case "<":
		return c < 0
	case "<=":
		return c <= 0
	case ">":
		return c > 0
	case ">=":
		return c >= 0
	case "=":
		return c == 0
	case "!=":
		return c != 0
	}
	panic("bad comparator " + cmp)
}

func cmpFloat(cmp string, a, b float64) bool {
	switch cmp {
	case "<":
		return a < b
	case "<=":
		return a <= b
	case ">":
		return a > b
	case ">=":
		return a >= b
	case "=":
		return a == b
	case "!=":
		return a != b
	}
	panic("bad comparator " + cmp)
}

func cmp3Int(a, b int) int {
	if a < b {
		return -1
	}
	if a > b {
		return 1
	}
	return 0
}

// EnumRank returns the rank of value s in a strict enum column (-1 if undeclared).
func EnumRank(c *Col, s string) int {
	for i, v := range c.EnumVals {
		if v == s {
			return i
		}
	}
	return -1
}

// Eval evaluates the clause for one row of the shadow frame (reference semantics).
func (c *Clause) Eval(f *Frame, r int) bool {
	switch c.Op {
	case "null":
		return true
	case "and":
		for _, s := range c.Subs {
			if !s.Eval(f, r) {
				return false
			}
		}
		return true
	case "or":
		for _, s := range c.Subs {
			if s.Eval(f, r) {
				return true
			}
		}
		return false
	case "not":
		return !c.Subs[0].Eval(f, r)
	}
	v := c.evalLeaf(f, r)
	if c.Inverse {
		return !v
	}
	return v
}

func (c *Clause) evalLeaf(f *Frame, r int) bool {
	col := f.Col(c.Col)
	var other *Col
	if c.ArgKind == "col" {
		other = f.Col(c.ArgCol)
	}
	salt, pct := c.Salt, c.Pct
	switch c.Cmp {
	case "fn1":
		switch col.Kind {
		case KInt:
			return fw.Hash64(salt, col.I[r])%100 < pct
		case KFloat:
			return hashF(salt, col.F[r])%100 < pct
		case KBool:
			return fw.Hash64(salt, col.B[r])%100 < pct
		default:
			return hashStrP(salt, col.S[r])%100 < pct
		}
	case "fn2":
		switch col.Kind {
		case KInt:
			return fw.Hash64(salt, col.I[r], other.I[r])%100 < pct
		case KFloat:
			return (hashF(salt, col.F[r])^hashF(salt+1, other.F[r]))%100 < pct
		case KBool:
			return fw.Hash64(salt, col.B[r], other.B[r])%100 < pct
		default:
			return (hashStrP(salt, col.S[r])^hashStrP(salt+1, other.S[r]))%100 < pct
		}
	case "isnull":
		return col.IsNull(r)
	case "isnotnull":
		return !col.IsNull(r)
	}
	switch col.Kind {
	case KInt:
		x := col.I[r]
		switch c.ArgKind {
		case "int", "float":
			k := c.ArgI
			if c.ArgKind == "float" {
				k = int(c.ArgF)
			}
			switch c.Cmp {
			case "any_bits":
				return x&k != 0
			case "all_bits":
				return x&k == k
			}
			return cmpOrd(c.Cmp, cmp3Int(x, k))
		case "ints", "floats":
			for _, v := range c.ListI {
				if v == x {
					return true
				}
			}
			return false
		case "col":
			if other.Kind == KFloat {
				return cmpFloat(c.Cmp, float64(x), other.F[r])
			}
			return cmpOrd(c.Cmp, cmp3Int(x, other.I[r]))
		}
	case KFloat:
		x := col.F[r]
		switch c.ArgKind {
		case "float":
			return cmpFloat(c.Cmp, x, c.ArgF)
		case "col":
			if other.Kind == KInt {
				return cmpFloat(c.Cmp, x, float64(other.I[r]))
			}
			return cmpFloat(c.Cmp, x, other.F[r])
		}
	case KBool:
		x := col.B[r]
		y := c.ArgB
		if c.ArgKind == "col" {
			y = other.B[r]
		}
		if c.Cmp == "=" {
			return x == y
		}
		return x != y
	case KString, KEnum:
		x := col.S[r]
		switch c.ArgKind {
		case "string":
			if c.Cmp == "like" || c.Cmp == "ilike" {
				if x == nil {
					return false
				}
				m, _ := LikeRef(c.ArgS, *x, c.Cmp == "like")
				return m
			}
			if x == nil {
				return c.Cmp == "!="
			}
			if col.Kind == KEnum && col.Strict() && c.Cmp != "=" && c.Cmp != "!=" {
				return cmpOrd(c.Cmp, cmp3Int(EnumRank(col, *x), EnumRank(col, c.ArgS)))
			}
			return cmpOrd(c.Cmp, strings.Compare(*x, c.ArgS))
		case "strings":
			if x == nil {
				return false
			}
			for _, v := range c.ListS {
				if v == *x {
					return true
				}
			}
			return false
		case "col":
			y := other.S[r]
			if x == nil || y == nil {
				return c.Cmp == "!="
			}
			if col.Kind == KEnum && c.Cmp != "=" && c.Cmp != "!=" {
				return cmpOrd(c.Cmp, cmp3Int(EnumRank(col, *x), EnumRank(col, *y)))
			}
			return cmpOrd(c.Cmp, strings.Compare(*x, *y))
		}
	}
	panic(fmt.Sprintf("evalLeaf: unsupported leaf %s on %s", c.String(), col.Kind))
}

var sixCmps = []string{"<", "<=", ">", ">=", "=", "!="}

func pickIntNear(rng *rand.Rand, col *Col) int {
	if len(col.I) > 0 && rng.Intn(5) > 0 {
		v := col.I[rng.Intn(len(col.I))]
		switch rng.Intn(4) {
		case 0:
			if v < math.MaxInt64 {
				return v + 1
			}
		case 1:
			if v > math.MinInt64 {
				return v - 1
			}
		}
		return v
	}
	return genInt(rng, &GenOpts{})
}

func pickFloatNear(rng *rand.Rand, col *Col) float64 {
	for tries := 0; tries < 20 && len(col.F) > 0; tries++ {
		v := col.F[rng.Intn(len(col.F))]
		if math.IsNaN(v) {
			continue
		}
		switch rng.Intn(4) {
		case 0:
			return math.Nextafter(v, math.Inf(1))
		case 1:
			return math.Nextafter(v, math.Inf(-1))
		}
		return v
	}
	return genFloat(rng, &GenOpts{})
}

func pickStrNear(rng *rand.Rand, col *Col) string {
	for tries := 0; tries < 20 && len(col.S) > 0; tries++ {
		v := col.S[rng.Intn(len(col.S))]
		if v == nil {
			continue
		}
		switch rng.Intn(5) {
		case 0:
			return *v + "a"
		case 1:
			if len(*v) > 0 {
				return (*v)[:len(*v)-1]
			}
		}
		return *v
	}
	return StringPool[rng.Intn(len(StringPool))]
}

// likePattern derives a metacharacter-free pattern from a cell.
func likePattern(rng *rand.Rand, col *Col) string {
	if rng.Intn(6) == 0 {
		// a few regular expressions (a small fixed set, so that one pattern meets both like and ilike within a process)
		return []string{"a.b", "^a", "b$", "[ab]+", ".", "a|B", "(a|A)b", "\\d+", "%a.%", "x?y", "%[A-C]", "B.R"}[rng.Intn(12)]
	}
	base := pickStrNear(rng, col)
	// keep it regexp-free and ASCII (the exact matcher rules are the business of C18)
	var sb strings.Builder
	for _, r := range base {
		if r < 0x80 && r >= 0x20 && regexp.QuoteMeta(string(r)) == string(r) && r != '%' {
			sb.WriteRune(r)
		}
	}
	lit := sb.String()
	if len(lit) > 1 && rng.Intn(2) == 0 {
		a := rng.Intn(len(lit))
		b := a + rng.Intn(len(lit)-a) + 1
		lit = lit[a:b]
	}
	if rng.Intn(3) == 0 {
		lit = strings.ToUpper(lit)
	}
	switch rng.Intn(4) {
	case 0:
		return "%" + lit
	case 1:
		return lit + "%"
	case 2:
		return "%" + lit + "%"
	}
	return lit
}

// GenLeaf generates a valid leaf filter for the frame (nil if none could be generated).
func GenLeaf(rng *rand.Rand, f *Frame) *Clause {
	for tries := 0; tries < 50; tries++ {
		col := f.Cols[rng.Intn(len(f.Cols))]
		c := &Clause{Op: "leaf", Col: col.Name, Inverse: rng.Intn(4) == 0, Salt: rng.Uint64(), Pct: uint64(20 + rng.Intn(61)), ArgKind: "none"}
		sameKind := func(pred func(o *Col) bool) *Col {
			var cands []*Col
			for _, o := range f.Cols {
				if pred(o) {
					cands = append(cands, o)
				}
			}
			if len(cands) == 0 {
				return nil
			}
			return cands[rng.Intn(len(cands))]
		}
		mode := rng.Intn(10)
		switch col.Kind {
		case KInt:
			switch {
			case mode < 4:
				c.Cmp = append(append([]string{}, sixCmps...), "any_bits", "all_bits")[rng.Intn(8)]
				c.ArgKind, c.ArgI = "int", pickIntNear(rng, col)
				if c.Cmp == "any_bits" || c.Cmp == "all_bits" {
					if rng.Intn(2) == 0 {
						c.ArgI = []int{1, 2, 3, 4, 6, 255, 1 << 31, math.MinInt64, -1, 0}[rng.Intn(10)]
					}
				} else if rng.Intn(6) == 0 {
					c.ArgKind, c.ArgF = "float", float64(rng.Intn(41)-20)
				}
			case mode < 5:
				c.Cmp = "in"
				c.ArgKind = []string{"ints", "ints", "floats"}[rng.Intn(3)]
				for i := rng.Intn(5); i >= 0; i-- {
					v := pickIntNear(rng, col)
					if c.ArgKind == "floats" {
						v = rng.Intn(41) - 20
						if len(col.I) > 0 {
							if w := col.I[rng.Intn(len(col.I))]; w > -1000000 && w < 1000000 {
								v = w
							}
						}
					}
					c.ListI = append(c.ListI, v)
				}
				c.Iface = rng.Intn(3) == 0
			case mode < 7:
				o := sameKind(func(o *Col) bool { return o.Kind == KInt || o.Kind == KFloat })
				if o == nil {
					continue
				}
				c.Cmp, c.ArgKind, c.ArgCol = sixCmps[rng.Intn(6)], "col", o.Name
			case mode < 8:
				c.Cmp = []string{"isnull", "isnotnull"}[rng.Intn(2)]
			case mode < 9:
				c.Cmp = "fn1"
			default:
				o := sameKind(func(o *Col) bool { return o.Kind == KInt })
				if o == nil {
					continue
				}
				c.Cmp, c.ArgKind, c.ArgCol = "fn2", "col", o.Name
			}
		case KFloat:
			switch {
			case mode < 4:
				c.Cmp, c.ArgKind, c.ArgF = sixCmps[rng.Intn(6)], "float", pickFloatNear(rng, col)
			case mode < 6:
				o := sameKind(func(o *Col) bool { return o.Kind == KInt || o.Kind == KFloat })
				if o == nil {
					continue
				}
				c.Cmp, c.ArgKind, c.ArgCol = sixCmps[rng.Intn(6)], "col", o.Name
			case mode < 8:
				c.Cmp = []string{"isnull", "isnotnull"}[rng.Intn(2)]
			case mode < 9:
				c.Cmp = "fn1"
			default:
				o := sameKind(func(o *Col) bool { return o.Kind == KFloat })
				if o == nil {
					continue
				}
				c.Cmp, c.ArgKind, c.ArgCol = "fn2", "col", o.Name
			}
		case KBool:
			switch {
			case mode < 4:
				c.Cmp, c.ArgKind, c.ArgB = []string{"=", "!="}[rng.Intn(2)], "bool", rng.Intn(2) == 0
			case mode < 7:
				o := sameKind(func(o *Col) bool { return o.Kind == KBool })
				if o == nil {
					continue
				}
				c.Cmp, c.ArgKind, c.ArgCol = []string{"=", "!="}[rng.Intn(2)], "col", o.Name
			case mode < 9:
				c.Cmp = "fn1"
			default:
				o := sameKind(func(o *Col) bool { return o.Kind == KBool })
				if o == nil {
					continue
				}
				c.Cmp, c.ArgKind, c.ArgCol = "fn2", "col", o.Name
			}
		case KString:
			switch {
			case mode < 3:
				c.Cmp, c.ArgKind, c.ArgS = sixCmps[rng.Intn(6)], "string", pickStrNear(rng, col)
			case mode < 4:
				c.Cmp, c.ArgKind, c.ArgS = []string{"like", "ilike"}[rng.Intn(2)], "string", likePattern(rng, col)
			case mode < 5:
				c.Cmp, c.ArgKind = "in", "strings"
				for i := rng.Intn(5); i >= 0; i-- {
					c.ListS = append(c.ListS, pickStrNear(rng, col))
				}
				c.Iface = rng.Intn(3) == 0
			case mode < 7:
				o := sameKind(func(o *Col) bool { return o.Kind == KString })
				if o == nil {
					continue
				}
				c.Cmp, c.ArgKind, c.ArgCol = sixCmps[rng.Intn(6)], "col", o.Name
			case mode < 8:
				c.Cmp = []string{"isnull", "isnotnull"}[rng.Intn(2)]
			case mode < 9:
				c.Cmp = "fn1"
			default:
				o := sameKind(func(o *Col) bool { return o.Kind == KString })
				if o == nil {
					continue
				}
				c.Cmp, c.ArgKind, c.ArgCol = "fn2", "col", o.Name
			}
		case KEnum:
			if !col.EnumKnown {
				continue
			}
			pickConst := func() (string, bool) {
				if col.Strict() {
					return col.EnumVals[rng.Intn(len(col.EnumVals))], true
				}
				return pickStrNear(rng, col), true
			}
			switch {
			case mode < 3:
				cmps := []string{"=", "!="}
				if col.Strict() {
					cmps = sixCmps
				}
				s, _ := pickConst()
				c.Cmp, c.ArgKind, c.ArgS = cmps[rng.Intn(len(cmps))], "string", s
			case mode < 4:
				c.Cmp, c.ArgKind, c.ArgS = []string{"like", "ilike"}[rng.Intn(2)], "string", likePattern(rng, col)
			case mode < 5:
				c.Cmp, c.ArgKind = "in", "strings"
				for i := rng.Intn(5); i >= 0; i-- {
					c.ListS = append(c.ListS, pickStrNear(rng, col))
				}
				c.Iface = rng.Intn(3) == 0
			case mode < 7:
				o := sameKind(func(o *Col) bool {
					return o.Kind == KEnum && o.Strict() && col.Strict() && strings.Join(o.EnumVals, "\x01") == strings.Join(col.EnumVals, "\x01") && len(o.EnumVals) == len(col.EnumVals)
				})
				if o == nil {
					continue
				}
				c.Cmp, c.ArgKind, c.ArgCol = sixCmps[rng.Intn(6)], "col", o.Name
			case mode < 8:
				c.Cmp = []string{"isnull", "isnotnull"}[rng.Intn(2)]
			case mode < 9:
				c.Cmp = "fn1"
			default:
				o := sameKind(func(o *Col) bool { return o.Kind == KEnum })
				if o == nil {
					continue
				}
				c.Cmp, c.ArgKind, c.ArgCol = "fn2", "col", o.Name
			}
		}
		return c
	}
	return nil
}

// GenRunClause generates a clause whose sub-clauses select contiguous runs of the frame's rows (in frame order):
// a long first run that does not reach the end, later runs behind it, pass-through clauses (Null) in front, the
// runs wrapped in And/Not/Or in different ways. Needs the unique id column. Returns nil if the frame is too small.
func GenRunClause(rng *rand.Rand, f *Frame) *Clause {
	idc := f.Col(IDCol)
	n := f.Len()
	if idc == nil || idc.Kind != KInt || n < 4 {
		return nil
	}
	run := func(a, b int) *Clause {
		ids := append([]int(nil), idc.I[a:b]...)
		rng.Shuffle(len(ids), func(i, j int) { ids[i], ids[j] = ids[j], ids[i] })
		return &Clause{Op: "leaf", Col: IDCol, Cmp: "in", ArgKind: "ints", ListI: ids, Iface: rng.Intn(2) == 0}
	}
	wrap := func(c *Clause) *Clause {
		switch rng.Intn(5) {
		case 0:
			return &Clause{Op: "and", Subs: []*Clause{c}}
		case 1:
			return &Clause{Op: "not", Subs: []*Clause{{Op: "not", Subs: []*Clause{c}}}}
		case 2:
			return &Clause{Op: "and", Subs: []*Clause{{Op: "null"}, c}}
		case 3:
			return &Clause{Op: "or", Subs: []*Clause{c}}
		}
		return c
	}
	// first run: at least half of the rows, starting at or near the beginning, ending before the last row
	a := rng.Intn(1 + n/8)
	b := a + n/2 + rng.Intn(n-a-n/2)
	if b >= n {
		b = n - 1
	}
	if b <= a {
		return nil
	}
	subs := []*Clause{wrap(run(a, b))}
	for pos, k := b, 1+rng.Intn(3); k > 0 && pos < n; k-- {
		c := pos + rng.Intn(n-pos)
		d := c + 1 + rng.Intn(n-c)
		subs = append(subs, wrap(run(c, d)))
		pos = d
	}
	top := &Clause{Op: "or", Subs: subs}
	switch rng.Intn(6) {
	case 0:
		return &Clause{Op: "and", Subs: []*Clause{{Op: "null"}, top}}
	case 1:
		return &Clause{Op: "and", Subs: []*Clause{{Op: "null"}, subs[0].leafOrSelf()}}
	case 2:
		return &Clause{Op: "and", Subs: []*Clause{{Op: "or", Subs: []*Clause{{Op: "null"}}}, run(a, b), run(a+(b-a)/2, b)}}
	}
	return top
}

func (c *Clause) leafOrSelf() *Clause {
	for c.Op != "leaf" && len(c.Subs) > 0 {
		c = c.Subs[len(c.Subs)-1]
	}
	return c
}

// GenClause generates a random clause tree.
func GenClause(rng *rand.Rand, f *Frame, depth int) *Clause {
	if depth >= 2 && rng.Intn(12) == 0 {
		if rc := GenRunClause(rng, f); rc != nil {
			return rc
		}
	}
	if depth <= 0 || rng.Intn(3) == 0 {
		if rng.Intn(40) == 0 {
			return &Clause{Op: "null"}
		}
		return GenLeaf(rng, f)
	}
	switch rng.Intn(7) {
	case 0, 1:
		n := 1 + rng.Intn(4)
		c := &Clause{Op: "and"}
		for i := 0; i < n; i++ {
			s := GenClause(rng, f, depth-1)
			if s == nil {
				return nil
			}
			c.Subs = append(c.Subs, s)
		}
		return c
	case 2, 3, 4:
		// bias: consecutive leaves inside Or share one boolean index
		n := 1 + rng.Intn(4)
		c := &Clause{Op: "or"}
		for i := 0; i < n; i++ {
			var s *Clause
			if rng.Intn(3) > 0 {
				s = GenLeaf(rng, f)
			} else {
				s = GenClause(rng, f, depth-1)
			}
			if s == nil {
				return nil
			}
			c.Subs = append(c.Subs, s)
		}
		return c
	default:
		s := GenClause(rng, f, depth-1)
		if s == nil {
			return nil
		}
		return &Clause{Op: "not", Subs: []*Clause{s}}
	}
}

// Rewrite returns a clause that is logically equivalent to c but shaped differently.
func Rewrite(rng *rand.Rand, c *Clause) *Clause {
	switch rng.Intn(6) {
	case 0: // double negation
		return &Clause{Op: "not", Subs: []*Clause{{Op: "not", Subs: []*Clause{c}}}}
	case 1: // wrap in single And / Or
		return &Clause{Op: []string{"and", "or"}[rng.Intn(2)], Subs: []*Clause{c}}
	case 2: // commute
		if (c.Op == "and" || c.Op == "or") && len(c.Subs) > 1 {
			subs := append([]*Clause(nil), c.Subs...)
			rng.Shuffle(len(subs), func(i, j int) { subs[i], subs[j] = subs[j], subs[i] })
			return &Clause{Op: c.Op, Subs: subs}
		}
	case 3: // De Morgan
		if c.Op == "and" || c.Op == "or" {
			inner := &Clause{Op: map[string]string{"and": "or", "or": "and"}[c.Op]}
			for _, s := range c.Subs {
				inner.Subs = append(inner.Subs, &Clause{Op: "not", Subs: []*Clause{s}})
			}
			return &Clause{Op: "not", Subs: []*Clause{inner}}
		}
	case 4: // leaf inverse <-> Not(leaf)
		if c.Op == "leaf" {
			cp := *c
			cp.Inverse = !c.Inverse
			return &Clause{Op: "not", Subs: []*Clause{&cp}}
		}
		if c.Op == "not" && c.Subs[0].Op == "leaf" {
			cp := *c.Subs[0]
			cp.Inverse = !cp.Inverse
			return &cp
		}
	}
	// Or(c, Not(Null)) == c ; And(c, Null) == c
	if rng.Intn(2) == 0 {
		return &Clause{Op: "and", Subs: []*Clause{c, {Op: "null"}}}
	}
	return &Clause{Op: "or", Subs: []*Clause{{Op: "not", Subs: []*Clause{{Op: "null"}}}, c}}
}

// Kinds returns the kind of every column.
func (f *Frame) Kinds() map[string]Kind {
	m := map[string]Kind{}
	for _, c := range f.Cols {
		m[c.Name] = c.Kind
	}
	return m
}

// Shape is a coarse shape key of a clause (used for known-finding keys and distinctness).
func (c *Clause) Shape(f *Frame) string {
	switch c.Op {
	case "leaf":
		k := f.Col(c.Col).Kind.String()
		s := k + ":" + c.Cmp + ":" + c.ArgKind
		if c.Inverse {
			s += ":inv"
		}
		return s
	case "null":
		return "null"
	}
	parts := make([]string, len(c.Subs))
	for i, s := range c.Subs {
		parts[i] = s.Shape(f)
	}
	return c.Op + "(" + strings.Join(parts, ",") + ")"
}
