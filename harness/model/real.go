package model

import (
	"bytes"
	"fmt"
	"math"
	"math/rand"
	"sort"
	"strconv"
	"strings"

	"github.com/tobgu/qframe"
	"github.com/tobgu/qframe/config/csv"
	"github.com/tobgu/qframe/config/groupby"
	"github.com/tobgu/qframe/config/newqf"
	"github.com/tobgu/qframe/types"

	"qverif/fw"
	"qverif/hooks"
)

// BuildNew constructs a real frame from the shadow through qframe.New.
// Slices handed to New are fresh copies (New keeps references to them).
func BuildNew(rng *rand.Rand, f *Frame) qframe.QFrame {
	data := map[string]types.DataSlice{}
	enums := map[string][]string{}
	for _, c := range f.Cols {
		n := c.Len()
		constOK := rng != nil && n > 0 && rng.Intn(4) == 0
		switch c.Kind {
		case KInt:
			if constOK && allSameInt(c.I) {
				data[c.Name] = qframe.ConstInt{Val: c.I[0], Count: n}
			} else {
				data[c.Name] = append([]int(nil), c.I...)
			}
		case KFloat:
			if constOK && allSameFloat(c.F) {
				data[c.Name] = qframe.ConstFloat{Val: c.F[0], Count: n}
			} else {
				data[c.Name] = append([]float64(nil), c.F...)
			}
		case KBool:
			if constOK && allSameBool(c.B) {
				data[c.Name] = qframe.ConstBool{Val: c.B[0], Count: n}
			} else {
				data[c.Name] = append([]bool(nil), c.B...)
			}
		case KString, KEnum:
			if c.Kind == KEnum {
				enums[c.Name] = append([]string(nil), c.EnumVals...)
				if len(c.EnumVals) == 0 {
					enums[c.Name] = nil
				}
			}
			if constOK && allSameStr(c.S) {
				var v *string
				if c.S[0] != nil {
					v = StrP(*c.S[0])
				}
				data[c.Name] = qframe.ConstString{Val: v, Count: n}
			} else if rng != nil && rng.Intn(3) == 0 && noNil(c.S) {
				ss := make([]string, n)
				for i, s := range c.S {
					ss[i] = *s
				}
				data[c.Name] = ss
			} else {
				sp := make([]*string, n)
				for i, s := range c.S {
					if s != nil {
						sp[i] = StrP(*s)
					}
				}
				data[c.Name] = sp
			}
		}
	}
	var fns []newqf.ConfigFunc
	if !(f.SortedNames() && rng != nil && rng.Intn(2) == 0) {
		fns = append(fns, newqf.ColumnOrder(f.Names()...))
	}
	if len(enums) > 0 {
		fns = append(fns, newqf.Enums(enums))
	}
	return qframe.New(data, fns...)
}

func allSameInt(v []int) bool {
	for _, x := range v {
		if x != v[0] {
			return false
		}
	}
	return true
}
func allSameFloat(v []float64) bool {
	for _, x := range v {
		if math.Float64bits(x) != math.Float64bits(v[0]) {
			return false
		}
	}
	return true
}
func allSameBool(v []bool) bool {
	for _, x := range v {
		if x != v[0] {
			return false
		}
	}
	return true
}
func allSameStr(v []*string) bool {
	for _, x := range v {
		if (x == nil) != (v[0] == nil) || (x != nil && *x != *v[0]) {
			return false
		}
	}
	return true
}
func noNil(v []*string) bool {
	for _, x := range v {
		if x == nil {
			return false
		}
	}
	return true
}

// CSVField quotes a field when needed (RFC 4180).
func CSVField(s string, delim byte, always bool) string {
	if always || strings.ContainsAny(s, "\"\n\r") || strings.IndexByte(s, delim) >= 0 {
		return `"` + strings.ReplaceAll(s, `"`, `""`) + `"`
	}
	return s
}

// CanCSV reports whether BuildCSV can represent the frame faithfully, and the EmptyNull setting needed.
func CanCSV(f *Frame) (ok bool, emptyNull bool) {
	if len(f.Cols) == 0 || f.Len() == 0 {
		return false, false
	}
	hasNull, hasEmpty := false, false
	for _, c := range f.Cols {
		if strings.ContainsAny(c.Name, "\r\n") || c.Name == "" {
			return false, false
		}
		if c.Kind == KString || c.Kind == KEnum {
			for _, s := range c.S {
				if s == nil {
					hasNull = true
				} else {
					if *s == "" {
						hasEmpty = true
					}
					if strings.Contains(*s, "\r") {
						return false, false
					}
				}
			}
		}
		if c.Kind == KEnum && c.Strict() {
			for _, v := range c.EnumVals {
				if v == "" {
					hasEmpty = true
				}
			}
		}
	}
	if hasNull && hasEmpty {
		return false, false
	}
	if len(f.Cols) == 1 {
		// a single empty cell is an empty line
		c := f.Cols[0]
		for i := 0; i < c.Len(); i++ {
			if c.IsNull(i) || ((c.Kind == KString || c.Kind == KEnum) && *c.S[i] == "") {
				return false, false
			}
		}
	}
	return true, hasNull
}

// BuildCSV constructs a real frame by serialising the shadow to CSV and reading it back with declared types.
// String columns built this way are backed by one shared byte blob per column.
func BuildCSV(rng *rand.Rand, f *Frame, emptyNull bool) qframe.QFrame {
	var buf bytes.Buffer
	for i, c := range f.Cols {
		if i > 0 {
			buf.WriteByte(',')
		}
		buf.WriteString(CSVField(c.Name, ',', false))
	}
	buf.WriteByte('\n')
	n := f.Len()
	for r := 0; r < n; r++ {
		for i, c := range f.Cols {
			if i > 0 {
				buf.WriteByte(',')
			}
			switch c.Kind {
			case KInt:
				buf.WriteString(strconv.Itoa(c.I[r]))
			case KFloat:
				if !math.IsNaN(c.F[r]) {
					buf.WriteString(strconv.FormatFloat(c.F[r], 'g', -1, 64))
				}
			case KBool:
				buf.WriteString(strconv.FormatBool(c.B[r]))
			default:
				if c.S[r] != nil {
					buf.WriteString(CSVField(*c.S[r], ',', false))
				}
			}
		}
		buf.WriteByte('\n')
	}
	typs := map[string]string{}
	enums := map[string][]string{}
	for _, c := range f.Cols {
		typs[c.Name] = c.Kind.String()
		if c.Kind == KEnum && len(c.EnumVals) > 0 {
			enums[c.Name] = append([]string(nil), c.EnumVals...)
		}
	}
	fns := []csv.ConfigFunc{csv.Types(typs), csv.EmptyNull(emptyNull)}
	if len(enums) > 0 {
		fns = append(fns, csv.EnumValues(enums))
	}
	return qframe.ReadCSV(bytes.NewReader(buf.Bytes()), fns...)
}

// BuildAny constructs a real frame through a randomly chosen applicable path.
func BuildAny(rng *rand.Rand, f *Frame) (qframe.QFrame, string) {
	if ok, en := CanCSV(f); ok && rng.Intn(3) == 0 {
		dup := map[string]bool{}
		for _, c := range f.Cols {
			dup[c.Name] = true
		}
		if len(dup) == len(f.Cols) {
			qf := BuildCSV(rng, f, en)
			if qf.Err == nil {
				return qf, "csv"
			}
		}
	}
	return BuildNew(rng, f), "new"
}

// Observe reads a real frame back into a shadow frame through the public observers.
func Observe(qf qframe.QFrame) (*Frame, error) {
	if qf.Err != nil {
		return nil, fmt.Errorf("frame has Err: %v", qf.Err)
	}
	names := qf.ColumnNames()
	typs := qf.ColumnTypes()
	f := &Frame{}
	for i, name := range names {
		k, ok := KindOf(string(typs[i]))
		if !ok {
			return nil, fmt.Errorf("column %q has unsupported type %q", name, typs[i])
		}
		c := &Col{Name: name, Kind: k}
		switch k {
		case KInt:
			v, err := qf.IntView(name)
			if err != nil {
				return nil, err
			}
			c.I = v.Slice()
		case KFloat:
			v, err := qf.FloatView(name)
			if err != nil {
				return nil, err
			}
			c.F = v.Slice()
		case KBool:
			v, err := qf.BoolView(name)
			if err != nil {
				return nil, err
			}
			c.B = v.Slice()
		case KString:
			v, err := qf.StringView(name)
			if err != nil {
				return nil, err
			}
			c.S = v.Slice()
		case KEnum:
			v, err := qf.EnumView(name)
			if err != nil {
				return nil, err
			}
			sl := v.Slice()
			c.S = make([]*string, len(sl))
			for j, s := range sl {
				if s != nil {
					c.S[j] = StrP(*s) // enum views point into the shared value table: copy
				}
			}
		}
		if c.Len() != qf.Len() {
			return nil, fmt.Errorf("column %q view has %d cells, frame Len is %d", name, c.Len(), qf.Len())
		}
		f.Cols = append(f.Cols, c)
	}
	return f, nil
}

// ObserveGuard is Observe with panics converted to errors.
func ObserveGuard(qf qframe.QFrame) (f *Frame, err error) {
	pv, _ := fw.Guard(func() {
		if qf.Err == nil {
			if ierr := hooks.CheckInvariants(qf); ierr != nil {
				err = fmt.Errorf("structural invariant of the frame violated: %v", ierr)
				return
			}
		}
		f, err = Observe(qf)
	})
	if pv != nil {
		return nil, fmt.Errorf("panic while observing: %v", pv)
	}
	return f, err
}

// Meta carries enum metadata by column name through derivations.
type Meta map[string]*Col

// MetaOf extracts metadata from a shadow frame.
func MetaOf(f *Frame) Meta {
	m := Meta{}
	for _, c := range f.Cols {
		m[c.Name] = &Col{Name: c.Name, Kind: c.Kind, EnumKnown: c.EnumKnown, EnumVals: c.EnumVals}
	}
	return m
}

// Apply attaches the metadata to an observed frame.
func (m Meta) Apply(f *Frame) {
	for _, c := range f.Cols {
		if mc, ok := m[c.Name]; ok && mc.Kind == c.Kind && c.Kind == KEnum {
			c.EnumKnown, c.EnumVals = mc.EnumKnown, mc.EnumVals
		}
	}
}

// keepPred returns a deterministic pseudo random predicate on hashes.
func keepHash(salt uint64, v interface{}, pct uint64) bool {
	return fw.Hash64(salt, v)%100 < pct
}

// Derived is a real frame together with what is known about it.
type Derived struct {
	QF    qframe.QFrame
	Shape string
	Ops   []string
	Path  string
}

// Derive pushes the frame through up to n random index- and column-changing
// operations so that physical and logical row order differ. Metadata is kept up to date.
func Derive(rng *rand.Rand, qf qframe.QFrame, meta Meta, n int, colOps bool) (qframe.QFrame, []string) {
	var ops []string
	for s := 0; s < n; s++ {
		names := qf.ColumnNames()
		if len(names) == 0 || qf.Err != nil {
			break
		}
		var next qframe.QFrame
		var op string
		choice := rng.Intn(10)
		if !colOps && choice >= 8 {
			choice = rng.Intn(8)
		}
		pv, _ := fw.Guard(func() {
			switch choice {
			case 0, 1, 2: // sort
				k := 1 + rng.Intn(2)
				var orders []qframe.Order
				for i := 0; i < k; i++ {
					orders = append(orders, qframe.Order{Column: names[rng.Intn(len(names))], Reverse: rng.Intn(2) == 0, NullLast: rng.Intn(2) == 0})
				}
				next = qf.Sort(orders...)
				op = fmt.Sprintf("Sort(%v)", orders)
			case 3, 4: // filter through a custom predicate
				col := names[rng.Intn(len(names))]
				salt := rng.Uint64()
				pct := uint64(40 + rng.Intn(55))
				var cmp interface{}
				switch qf.ColumnTypeMap()[col] {
				case types.Int:
					cmp = func(x int) bool { return keepHash(salt, x, pct) }
				case types.Float:
					cmp = func(x float64) bool { return keepHash(salt, math.Float64bits(x), pct) }
				case types.Bool:
					cmp = func(x bool) bool { return keepHash(salt, x, 80) }
				default:
					cmp = func(x *string) bool {
						if x == nil {
							return keepHash(salt, "<nil>", pct)
						}
						return keepHash(salt, *x, pct)
					}
				}
				next = qf.Filter(qframe.Filter{Column: col, Comparator: cmp})
				op = fmt.Sprintf("Filter(pred on %q keep~%d%%)", col, pct)
			case 5: // slice, often leaving spare capacity behind the end
				l := qf.Len()
				a := 0
				if rng.Intn(2) == 0 && l > 0 {
					a = rng.Intn(l + 1)
				}
				b := l
				if rng.Intn(3) > 0 {
					b = a + rng.Intn(l-a+1)
				}
				next = qf.Slice(a, b)
				op = fmt.Sprintf("Slice(%d,%d)", a, b)
			case 6: // slice keeping most rows
				l := qf.Len()
				a := rng.Intn(l/4 + 1)
				b := l - rng.Intn(l/4+1)
				if b < a {
					b = a
				}
				next = qf.Slice(a, b)
				op = fmt.Sprintf("Slice(%d,%d)", a, b)
			case 7: // distinct on the id column (keeps all rows, arbitrary order)
				if _, ok := meta[IDCol]; ok && qf.Contains(IDCol) {
					next = qf.Distinct(groupby.Columns(IDCol))
					op = "Distinct(__id)"
				} else {
					next = qf.Sort(qframe.Order{Column: names[0], Reverse: true})
					op = "Sort(first col reversed)"
				}
			case 8: // select a permutation / drop one non-id column
				perm := rng.Perm(len(names))
				sel := make([]string, 0, len(names))
				for _, p := range perm {
					sel = append(sel, names[p])
				}
				if len(sel) > 2 && rng.Intn(2) == 0 {
					// drop one non-id column through Drop (keeps the remaining columns in their original order)
					for _, s := range sel {
						if s != IDCol {
							next = qf.Drop(s)
							op = fmt.Sprintf("Drop(%q)", s)
							return
						}
					}
				}
				next = qf.Select(sel...)
				op = fmt.Sprintf("Select(%q)", sel)
			default: // copy a column under a new name
				src := names[rng.Intn(len(names))]
				dst := fmt.Sprintf("cp%d", rng.Intn(3))
				if dst == src || src == IDCol && false {
					next = qf
					op = "nop"
				} else {
					next = qf.Copy(dst, src)
					op = fmt.Sprintf("Copy(%q,%q)", dst, src)
					if next.Err == nil {
						if m, ok := meta[src]; ok {
							cp := *m
							cp.Name = dst
							meta[dst] = &cp
						} else {
							delete(meta, dst)
						}
					}
				}
			}
		})
		if pv != nil || next.Err != nil {
			continue
		}
		qf = next
		ops = append(ops, op)
	}
	return qf, ops
}

// IndexShape classifies the physical row index of a frame (needs hooks).
func IndexShape(qf qframe.QFrame) string {
	if !hooks.Available || qf.Err != nil {
		return "unknown"
	}
	info := hooks.Index(qf)
	ix := info.Index
	shape := "identity"
	asc := true
	for i := range ix {
		if int(ix[i]) != i {
			shape = "subset"
		}
		if i > 0 && ix[i] < ix[i-1] {
			asc = false
		}
	}
	if !asc {
		shape = "permuted"
	}
	if info.Cap > len(ix) {
		shape += "+sparecap"
	}
	return shape
}

// Root generates a shadow frame, builds it and derives it; it returns the derived real frame
// and the shadow obtained by observing it (with enum metadata attached).
type Root struct {
	Shadow *Frame // observation of the derived frame
	QF     qframe.QFrame
	Path   string
	Ops    []string
	Shape  string
}

// MakeRoot builds and derives a frame. ok=false means the build failed (no verdict).
func MakeRoot(rng *rand.Rand, o GenOpts, maxDerive int, colOps bool) (*Root, error) {
	f := GenFrame(rng, o)
	return MakeRootFrom(rng, f, maxDerive, colOps)
}

// MakeRootFrom builds and derives the given shadow.
func MakeRootFrom(rng *rand.Rand, f *Frame, maxDerive int, colOps bool) (*Root, error) {
	var qf qframe.QFrame
	var path string
	pv, _ := fw.Guard(func() { qf, path = BuildAny(rng, f) })
	if pv != nil {
		return nil, fmt.Errorf("panic while building: %v", pv)
	}
	if qf.Err != nil {
		return nil, fmt.Errorf("build (%s) failed: %v", path, qf.Err)
	}
	meta := MetaOf(f)
	nd := 0
	if maxDerive > 0 {
		nd = rng.Intn(maxDerive + 1)
	}
	dq, ops := Derive(rng, qf, meta, nd, colOps)
	// Observed through the public API only (no invariant hook): if a derivation step left the frame in a
	// state that breaks later operations, the operation under test has to reveal that, as it would for a user.
	var sh *Frame
	var err error
	if pv, _ := fw.Guard(func() { sh, err = Observe(dq) }); pv != nil {
		return nil, fmt.Errorf("panic while observing the derived frame: %v", pv)
	}
	if err != nil {
		return nil, err
	}
	meta.Apply(sh)
	return &Root{Shadow: sh, QF: dq, Path: path, Ops: ops, Shape: IndexShape(dq)}, nil
}

// Describe renders the root for samples and witnesses.
func (r *Root) Describe(maxRows int) map[string]interface{} {
	d := r.Shadow.Describe(maxRows)
	d["built_via"] = r.Path
	d["derived_by"] = r.Ops
	d["index_shape"] = r.Shape
	return d
}

// SortedCopyInts returns a sorted copy.
func SortedCopyInts(v []int) []int {
	o := append([]int(nil), v...)
	sort.Ints(o)
	return o
}

// UpperCaseEnum applies the built-in "ToUpper" in place to one enum column whose distinct values stay distinct when
// upper-cased (so that the result is an ordinary enum). Returns the input frame when no column qualifies.
func UpperCaseEnum(rng *rand.Rand, qf qframe.QFrame, sh *Frame, meta Meta) (qframe.QFrame, string) {
	for _, p := range rng.Perm(len(sh.Cols)) {
		col := sh.Cols[p]
		if col.Kind != KEnum {
			continue
		}
		seen := map[string]string{}
		ok := true
		vals := map[string]bool{}
		for _, s := range col.S {
			if s != nil {
				vals[*s] = true
			}
		}
		if col.EnumKnown {
			for _, v := range col.EnumVals {
				vals[v] = true
			}
		}
		for v := range vals {
			u := strings.ToUpper(v)
			if o, dup := seen[u]; dup && o != v {
				ok = false
				break
			}
			seen[u] = v
		}
		if !ok || len(vals) == 0 {
			continue
		}
		var out qframe.QFrame
		if pv, _ := fw.Guard(func() { out = qf.Apply(qframe.Instruction{Fn: "ToUpper", DstCol: col.Name, SrcCol1: col.Name}) }); pv != nil || out.Err != nil {
			continue
		}
		delete(meta, col.Name)
		return out, fmt.Sprintf("Apply(ToUpper %q in place)", col.Name)
	}
	return qf, ""
}
