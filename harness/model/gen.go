package model

import (
	"math"
	"math/rand"
	"sort"
	"strings"
	"unicode/utf8"
)

// IntPool holds hostile integer values.
var IntPool = []int{0, 1, -1, 2, -2, 3, 7, 10, 100, -100, 255, 256, 1 << 31, -(1 << 31), 1<<31 - 1, 1<<53 + 1, -(1<<53 + 1), 1 << 62,
	math.MinInt64, math.MaxInt64, math.MinInt64 + 1, math.MaxInt64 - 1}

// NaNPayload is a NaN with a non default payload.
var NaNPayload = math.Float64frombits(0x7ff8000000000abc)
var NaNNeg = math.Float64frombits(0xfff8000000000001)

// FloatPool holds hostile non-NaN float values.
var FloatPool = []float64{0, math.Copysign(0, -1), 1, -1, 0.5, -0.5, 1.5, 2, 3, 10, 0.1, 0.2, 0.3, 1e21, 1e-7, 123456789.125, -2.5,
	math.Inf(1), math.Inf(-1), math.SmallestNonzeroFloat64, -math.SmallestNonzeroFloat64, math.MaxFloat64, -math.MaxFloat64,
	2.2250738585072014e-308, 9007199254740993, 4503599627370496.5, 1e15, 1e16, 5e-324, 1.7976931348623157e308,
	9223372036854775808, -9223372036854775808, 18446744073709551616, 4611686018427387904, 9223372036854774784, 2147483648, 4294967296, 1e18, 1e19,
	5.9604644775390625e-08, 36893488147419103232}

// StringPool holds hostile strings (no CR inside; those are in StringPoolCR).
var StringPool = []string{"", "a", "b", "c", "A", "B", "ab", "abc", "abd", "Ab", "aB", "b a", " a", "a ", " ", "a,b", "a;b", "a\tb", `a"b`, `"`, `""`, `"a"`, `'a'`,
	"line\nfeed", "\n", "x\n", "\x00", "a\x00b", "é", "É", "ü", "日本", "日本語", "\xff", "a\xffb", "\xc3", "\xe2\x82", "ı", "İ", "ß", "ſ", "ǅ", "K", "ɐ", "ⱥ",
	"\u0080", "a\u0080", " ", " ", "null", "NULL", "NaN", "0", "1", "-1", "1.5", "true", "false", "t", `\`, `\.`, `a\`, "%", "a%", "%a", "a.b", "a*", "[a]",
	"zzzzzzzzzzzzzzzzzzzzzzzzzzzzzzzzzzzzzzzzzzzzzzzz", "ɐɐɐɐɐɐɐab", "xɐɑɒȿɀɫɽɱɐɑɒȿɀɫɽɱɐɑɒȿɀɫɽɱ z", "\uFFFD", "a\uFFFDb", "const-temp-0", "$x", "0x10", "1e3", "+1", " 1", "∞", "𝔘", "\U0010ffff"}

// StringPoolCR holds strings with carriage returns.
var StringPoolCR = []string{"a\rb", "\r", "a\r\nb", "x\r"}

// NamePool holds plain column names.
var NamePool = []string{"a", "b", "c", "d", "e", "f", "g", "h", "x", "y", "z", "A", "Col", "col_1", "x y", "ä", "名", "k1", "k2", "v", "w", "n.m", "q-r"}

// GenOpts controls frame generation.
type GenOpts struct {
	Rows        int
	MinCols     int
	MaxCols     int
	Kinds       []Kind // allowed kinds (default all)
	ID          bool   // add the unique __id column
	NoCR        bool   // no carriage returns in strings
	UTF8        bool   // only valid UTF-8 strings
	NoNull      bool   // no null / NaN cells
	NoInf       bool   // no infinities
	PlainNaN    bool   // only the canonical NaN
	SmallInts   bool   // ints in a small range (no overflow in arithmetic)
	ExactFloat  bool   // floats are small dyadic rationals (sums are exact)
	LowCard     int    // 0 = mixed; >0 = every column draws from at most this many distinct values
	Names       []string
	Strings     []string // override string pool
	MaxEnumCard int      // default 12
	IDName      string
}

// RowCounts is the default list of row counts crossing internal thresholds.
var RowCounts = []int{0, 1, 2, 3, 5, 7, 8, 12, 13, 20, 40, 41, 50, 51, 64, 100, 130, 255, 256, 300}

// PickRows draws a row count; big allows counts up to max.
func PickRows(rng *rand.Rand, max int) int {
	for {
		var n int
		switch rng.Intn(10) {
		case 0, 1, 2, 3, 4, 5:
			n = RowCounts[rng.Intn(len(RowCounts))]
		case 6, 7:
			n = rng.Intn(60)
		case 8:
			n = rng.Intn(max + 1)
		default:
			n = []int{1000, 1023, 1024, 1025, 2000, 5000}[rng.Intn(6)]
		}
		if n <= max {
			return n
		}
	}
}

func (o *GenOpts) stringPool() []string {
	pool := o.Strings
	if pool == nil {
		pool = StringPool
		if !o.NoCR {
			pool = append(append([]string{}, pool...), StringPoolCR...)
		}
	}
	if o.UTF8 || o.NoCR {
		var p2 []string
		for _, s := range pool {
			if o.UTF8 && !utf8.ValidString(s) {
				continue
			}
			if o.NoCR && strings.Contains(s, "\r") {
				continue
			}
			p2 = append(p2, s)
		}
		pool = p2
	}
	return pool
}

// RandString makes a random string from a hostile alphabet.
func RandString(rng *rand.Rand, o *GenOpts) string {
	alpha := []string{"a", "b", "c", "A", "B", "z", "0", "1", " ", ",", `"`, "\n", "é", "ß", "日", "ı", "%", ".", "\\", "\x00", "\xff", "\u0080", "x", "y", "-", "_"}
	if !o.NoCR {
		alpha = append(alpha, "\r")
	}
	n := rng.Intn(8)
	if rng.Intn(20) == 0 {
		n = rng.Intn(60)
	}
	var sb strings.Builder
	for i := 0; i < n; i++ {
		a := alpha[rng.Intn(len(alpha))]
		if o.UTF8 && !utf8.ValidString(a) {
			a = "u"
		}
		sb.WriteString(a)
	}
	return sb.String()
}

func genInt(rng *rand.Rand, o *GenOpts) int {
	if o.SmallInts {
		return rng.Intn(41) - 20
	}
	switch rng.Intn(4) {
	case 0:
		return IntPool[rng.Intn(len(IntPool))]
	case 1:
		return rng.Intn(11) - 5
	case 2:
		return rng.Intn(2001) - 1000
	default:
		return int(rng.Uint64())
	}
}

func genFloat(rng *rand.Rand, o *GenOpts) float64 {
	if o.ExactFloat {
		return float64(rng.Intn(2001)-1000) / 8
	}
	for {
		var f float64
		switch rng.Intn(4) {
		case 0:
			f = FloatPool[rng.Intn(len(FloatPool))]
		case 1:
			f = float64(rng.Intn(11) - 5)
		case 2:
			f = float64(rng.Intn(2001)-1000) / 8
		default:
			f = math.Float64frombits(rng.Uint64())
		}
		if math.IsNaN(f) {
			continue
		}
		if o.NoInf && math.IsInf(f, 0) {
			continue
		}
		return f
	}
}

func genNaN(rng *rand.Rand, o *GenOpts) float64 {
	if o.PlainNaN {
		return math.NaN()
	}
	switch rng.Intn(3) {
	case 0:
		return NaNPayload
	case 1:
		return NaNNeg
	}
	return math.NaN()
}

// GenCol generates one column.
func GenCol(rng *rand.Rand, name string, k Kind, n int, o *GenOpts) *Col {
	c := NewCol(name, k, n)
	nullP := []float64{0, 0, 0.05, 0.5, 1}[rng.Intn(5)]
	if o.NoNull || k == KInt || k == KBool {
		nullP = 0
	}
	card := o.LowCard
	if card == 0 {
		switch rng.Intn(3) {
		case 0:
			card = 1 + rng.Intn(4)
		case 1:
			card = 4 + rng.Intn(12)
		default:
			card = 0 // unbounded
		}
	}
	spool := o.stringPool()
	switch k {
	case KInt:
		var vals []int
		for i := 0; i < card; i++ {
			vals = append(vals, genInt(rng, o))
		}
		for i := range c.I {
			if card > 0 {
				c.I[i] = vals[rng.Intn(card)]
			} else {
				c.I[i] = genInt(rng, o)
			}
		}
	case KFloat:
		var vals []float64
		for i := 0; i < card; i++ {
			vals = append(vals, genFloat(rng, o))
		}
		for i := range c.F {
			if rng.Float64() < nullP {
				c.F[i] = genNaN(rng, o)
			} else if card > 0 {
				c.F[i] = vals[rng.Intn(card)]
			} else {
				c.F[i] = genFloat(rng, o)
			}
		}
	case KBool:
		p := []float64{0, 0.1, 0.5, 0.5, 0.9, 1}[rng.Intn(6)]
		for i := range c.B {
			c.B[i] = rng.Float64() < p
		}
	case KString, KEnum:
		maxCard := o.MaxEnumCard
		if maxCard == 0 {
			maxCard = 12
		}
		if k == KEnum && (card == 0 || card > maxCard) {
			card = 1 + rng.Intn(maxCard)
		}
		var vals []string
		seen := map[string]bool{}
		for i := 0; i < card; i++ {
			var s string
			if rng.Intn(3) > 0 {
				s = spool[rng.Intn(len(spool))]
			} else {
				s = RandString(rng, o)
			}
			if !seen[s] {
				seen[s] = true
				vals = append(vals, s)
			}
		}
		for i := range c.S {
			if rng.Float64() < nullP {
				continue
			}
			var s string
			if len(vals) > 0 {
				s = vals[rng.Intn(len(vals))]
			} else if rng.Intn(3) > 0 {
				s = spool[rng.Intn(len(spool))]
			} else {
				s = RandString(rng, o)
			}
			c.S[i] = StrP(s)
		}
		if k == KEnum {
			c.EnumKnown = true
			if rng.Intn(2) == 0 {
				// declared (strict): all used values plus some extra, in random order
				used := map[string]bool{}
				var decl []string
				for _, s := range c.S {
					if s != nil && !used[*s] {
						used[*s] = true
						decl = append(decl, *s)
					}
				}
				for i := rng.Intn(3); i > 0; i-- {
					s := spool[rng.Intn(len(spool))]
					if !used[s] {
						used[s] = true
						decl = append(decl, s)
					}
				}
				if len(decl) == 0 {
					decl = []string{"only"}
				}
				rng.Shuffle(len(decl), func(i, j int) { decl[i], decl[j] = decl[j], decl[i] })
				c.EnumVals = decl
			}
		}
	}
	return c
}

// GenFrame generates a shadow frame.
func GenFrame(rng *rand.Rand, o GenOpts) *Frame {
	kinds := o.Kinds
	if len(kinds) == 0 {
		kinds = AllKinds
	}
	if o.MaxCols < o.MinCols {
		o.MaxCols = o.MinCols
	}
	ncols := o.MinCols + rng.Intn(o.MaxCols-o.MinCols+1)
	names := o.Names
	if names == nil {
		names = NamePool
	}
	perm := rng.Perm(len(names))
	f := &Frame{}
	for i := 0; i < ncols && i < len(names); i++ {
		k := kinds[rng.Intn(len(kinds))]
		f.Cols = append(f.Cols, GenCol(rng, names[perm[i]], k, o.Rows, &o))
	}
	if o.ID {
		name := o.IDName
		if name == "" {
			name = IDCol
		}
		idc := NewCol(name, KInt, o.Rows)
		p := rng.Perm(o.Rows)
		base := rng.Intn(1000)
		for i := range idc.I {
			idc.I[i] = base + p[i]
		}
		pos := rng.Intn(len(f.Cols) + 1)
		f.Cols = append(f.Cols, nil)
		copy(f.Cols[pos+1:], f.Cols[pos:])
		f.Cols[pos] = idc
	}
	return f
}

// SortedNames reports whether the column names are in alphabetical order.
func (f *Frame) SortedNames() bool {
	return sort.StringsAreSorted(f.Names())
}
