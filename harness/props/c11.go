package props

import (
	"bytes"
	"fmt"
	"math"
	"math/rand"
	"runtime"
	"sort"
	"strings"
	"sync"
	"time"

	"github.com/tobgu/qframe"
	"github.com/tobgu/qframe/aggregation"
	qcsv "github.com/tobgu/qframe/config/csv"
	"github.com/tobgu/qframe/config/eval"
	"github.com/tobgu/qframe/config/groupby"
	"github.com/tobgu/qframe/types"

	"qverif/fw"
	"qverif/model"
)

func init() {
	fw.Register(&fw.Property{
		ID:    "C11",
		Level: "exploration",
		Rule: "systematic first: every unordered pair (incl. self pairs) of operation kinds {Filter numeric/like/ilike/user predicate/composite/enum set, Sort, Distinct, GroupBy->Aggregate (built-ins, user functions, one shared function value from aggregation.StrJoin, one Grouper shared by all goroutines), GroupBy->QFrames, Filter with one shared clause value holding unsorted value lists, Apply 0/1/2 argument, built-in ToUpper on string and enum, constant/copy, FilteredApply, Eval with default and with one shared user context, WithRowNums, Select/Drop/Slice/Copy, all typed views, ToCSV, ToJSON, String, Equals, ByteSize/ColumnTypeMap} " +
			"runs concurrently (2 goroutines per side, common barrier, 2 repetitions of two back-to-back executions, GOMAXPROCS varied, user callbacks that yield) on the same frame / on a frame and one derived from it sharing its index array / on two siblings sharing columns / on a parent that was itself produced by adding a column, for root kinds slice-backed, Const*, CSV-blob-backed and enum-heavy; then random storms of 2-16 goroutines; " +
			"deciding instruments: the Go race detector (every worker runs the -race build; reports are collected from its log) and comparison of every concurrent result with the same operation's result computed alone before and after; " +
			"evaluation = one concurrent execution of one operation; non-trivial = pair execution whose two sides overlapped in time (measured from one monotonic clock); distinct by (operation pair, relation, root kind)",
		Assumptions: []string{
			"callbacks supplied by the harness are race free; mutating an eval.Context (SetFunc) while it is used is the caller's race and is not done",
			"the race detector judges the executions that happened (happens-before, independent of actual timing) but only code that was executed; result comparison samples interleavings",
		},
		Stages: func(tier string) []fw.Stage {
			np := c11Pairs()
			if tier == "quick" {
				return []fw.Stage{{Name: "race", Flavour: "race", Cases: np*2 + 30, MaxProcs: 14}}
			}
			return []fw.Stage{{Name: "race", Flavour: "race", Cases: np*8 + 1000, MaxProcs: 14}}
		},
		RunCase: runC11,
		Conclude: func(tier string, c map[string]int64, _ []string) string {
			if c["pair_executions"] == 0 {
				return "no pair executions"
			}
			if c["pair_executions_overlapping"]*4 < c["pair_executions"] {
				return fmt.Sprintf("only %d of %d pair executions overlapped in time", c["pair_executions_overlapping"], c["pair_executions"])
			}
			return ""
		},
	})
}

type c11Env struct {
	rng  *rand.Rand
	cols map[model.Kind][]string
	ctx  *eval.Context
	n    int
	// one function value obtained from the library, used by every goroutine of the case
	strJoin func([]*string) *string
	// one clause value (holding unsorted value lists) used by every goroutine of the case, and copies of its lists
	sharedClause             qframe.FilterClause
	inInts, inIntsCopy       []int
	inStrings, inStringsCopy []string
	inFloats, inFloatsCopy   []float64
	// one Grouper per frame of the case, used by every goroutine (set only when the operation is part of the case)
	gA, gB   qframe.Grouper
	gALen    int
	groupers bool
}

func (e *c11Env) grouperFor(f qframe.QFrame) qframe.Grouper {
	if f.Len() == e.gALen {
		return e.gA
	}
	return e.gB
}

type c11Op struct {
	name string
	run  func(e *c11Env, f qframe.QFrame, yield func()) uint64
}

func hashFrame(qf qframe.QFrame, ordered bool) uint64 {
	if qf.Err != nil {
		return fw.Hash64("err", qf.Err.Error())
	}
	sh, err := model.Observe(qf)
	if err != nil {
		return fw.Hash64("observe-err", err.Error())
	}
	h := fw.Hash64("schema", fmt.Sprint(sh.Names()), len(sh.Cols))
	for _, c := range sh.Cols {
		h ^= fw.Hash64("type", c.Name, c.Kind)
	}
	n := sh.Len()
	var acc uint64
	for r := 0; r < n; r++ {
		var rh uint64 = 1469598103934665603
		for _, c := range sh.Cols {
			var ch uint64
			switch c.Kind {
			case model.KInt:
				ch = uint64(c.I[r]) * 0x9e3779b97f4a7c15
			case model.KFloat:
				if math.IsNaN(c.F[r]) {
					ch = 12345
				} else {
					ch = math.Float64bits(c.F[r]) * 0xbf58476d1ce4e5b9
				}
			case model.KBool:
				if c.B[r] {
					ch = 7
				} else {
					ch = 11
				}
			default:
				if c.S[r] == nil {
					ch = 99
				} else {
					ch = fw.Hash64(*c.S[r])
				}
			}
			rh = (rh ^ ch) * 1099511628211
		}
		if ordered {
			acc = acc*31 + rh
		} else {
			acc += rh * (rh | 1)
		}
	}
	return h ^ acc ^ uint64(n)
}

func c11Ops() []c11Op {
	col := func(e *c11Env, k model.Kind, i int) string { return e.cols[k][i%len(e.cols[k])] }
	return []c11Op{
		{"Filter(int<c)", func(e *c11Env, f qframe.QFrame, _ func()) uint64 {
			return hashFrame(f.Filter(qframe.Filter{Column: col(e, model.KInt, 0), Comparator: "<", Arg: 3}), true)
		}},
		{"Filter(like)", func(e *c11Env, f qframe.QFrame, _ func()) uint64 {
			return hashFrame(f.Filter(qframe.Filter{Column: col(e, model.KString, 0), Comparator: "like", Arg: "%a%"}), true)
		}},
		{"Filter(ilike)", func(e *c11Env, f qframe.QFrame, _ func()) uint64 {
			return hashFrame(f.Filter(qframe.Filter{Column: col(e, model.KString, 0), Comparator: "ilike", Arg: "%aB%"}), true)
		}},
		{"Filter(ilike enum)", func(e *c11Env, f qframe.QFrame, _ func()) uint64 {
			return hashFrame(f.Filter(qframe.Filter{Column: col(e, model.KEnum, 0), Comparator: "ilike", Arg: "v%"}), true)
		}},
		{"Filter(regex like)", func(e *c11Env, f qframe.QFrame, _ func()) uint64 {
			return hashFrame(f.Filter(qframe.Filter{Column: col(e, model.KString, 0), Comparator: "like", Arg: "a.*b"}), true)
		}},
		{"Filter(user predicate)", func(e *c11Env, f qframe.QFrame, yield func()) uint64 {
			return hashFrame(f.Filter(qframe.Filter{Column: col(e, model.KFloat, 0), Comparator: func(x float64) bool { yield(); return x > 0 }}), true)
		}},
		{"Filter(composite)", func(e *c11Env, f qframe.QFrame, yield func()) uint64 {
			return hashFrame(f.Filter(qframe.Or(qframe.And(qframe.Filter{Column: col(e, model.KInt, 0), Comparator: ">", Arg: 0}, qframe.Not(qframe.Filter{Column: col(e, model.KBool, 0), Comparator: "=", Arg: true})),
				qframe.Filter{Column: col(e, model.KString, 0), Comparator: "isnull"}, qframe.Filter{Column: col(e, model.KInt, 0), Comparator: "=", Arg: types.ColumnName(col(e, model.KInt, 1))})), true)
		}},
		{"Filter(enum in set)", func(e *c11Env, f qframe.QFrame, _ func()) uint64 {
			return hashFrame(f.Filter(qframe.Filter{Column: col(e, model.KEnum, 0), Comparator: "in", Arg: []string{"v1", "v3", "zz"}}), true)
		}},
		{"Sort", func(e *c11Env, f qframe.QFrame, _ func()) uint64 {
			return hashFrame(f.Sort(qframe.Order{Column: col(e, model.KString, 0), NullLast: true}, qframe.Order{Column: col(e, model.KFloat, 0), Reverse: true}, qframe.Order{Column: model.IDCol}), true)
		}},
		{"Distinct", func(e *c11Env, f qframe.QFrame, _ func()) uint64 {
			return hashFrame(f.Distinct(groupby.Columns(col(e, model.KInt, 0), col(e, model.KEnum, 0)), groupby.Null(e.n%2 == 0)), false)
		}},
		{"GroupBy.Aggregate", func(e *c11Env, f qframe.QFrame, yield func()) uint64 {
			g := f.GroupBy(groupby.Columns(col(e, model.KString, 0)), groupby.Null(true))
			return hashFrame(g.Aggregate(qframe.Aggregation{Fn: "sum", Column: col(e, model.KInt, 0)}, qframe.Aggregation{Fn: "count", Column: col(e, model.KBool, 0)},
				qframe.Aggregation{Fn: func(v []float64) float64 { yield(); return float64(len(v)) }, Column: col(e, model.KFloat, 0)}), false)
		}},
		{"GroupBy.Aggregate(library StrJoin, one shared function value)", func(e *c11Env, f qframe.QFrame, _ func()) uint64 {
			g := f.GroupBy(groupby.Columns(col(e, model.KInt, 0), col(e, model.KBool, 0)))
			return hashFrame(g.Aggregate(qframe.Aggregation{Fn: e.strJoin, Column: col(e, model.KString, 0), As: "joined"}, qframe.Aggregation{Fn: e.strJoin, Column: col(e, model.KEnum, 1), As: "joinede"}), false)
		}},
		{"Filter(one shared clause value holding unsorted value lists)", func(e *c11Env, f qframe.QFrame, _ func()) uint64 {
			return hashFrame(f.Filter(e.sharedClause), true)
		}},
		{"one shared Grouper: Aggregate and QFrames", func(e *c11Env, f qframe.QFrame, yield func()) uint64 {
			g := e.grouperFor(f)
			agg := g.Aggregate(qframe.Aggregation{Fn: "sum", Column: col(e, model.KInt, 1)}, qframe.Aggregation{Fn: "max", Column: col(e, model.KFloat, 0)},
				qframe.Aggregation{Fn: func(v []int) int { yield(); return len(v) }, Column: model.IDCol})
			frames, err := g.QFrames()
			if err != nil {
				return 1
			}
			var acc uint64
			for _, fr := range frames {
				h := hashFrame(fr, true)
				acc += h * (h | 1)
			}
			return hashFrame(agg, false) ^ acc*3
		}},
		{"Filter(pass-through clauses: And(Null(), f), Or(And(Null(), f), g))", func(e *c11Env, f qframe.QFrame, _ func()) uint64 {
			f1 := qframe.Filter{Column: col(e, model.KInt, 0), Comparator: ">", Arg: 0}
			f2 := qframe.Filter{Column: col(e, model.KFloat, 0), Comparator: "<", Arg: -20.0}
			a := f.Filter(qframe.And(qframe.Null(), f1))
			b := f.Filter(qframe.Or(qframe.And(qframe.Null(), f1, f2), qframe.And(qframe.Or(qframe.Null()), f2)))
			return hashFrame(a, true) ^ hashFrame(b, true)*3
		}},
		{"GroupBy/Distinct on a string key with nulls not equal (the other Null setting of the same column)", func(e *c11Env, f qframe.QFrame, _ func()) uint64 {
			ks := col(e, model.KString, 0)
			g := f.GroupBy(groupby.Columns(ks), groupby.Null(false)).Aggregate(qframe.Aggregation{Fn: "count", Column: col(e, model.KInt, 0)})
			d := f.Distinct(groupby.Columns(ks, col(e, model.KBool, 0)), groupby.Null(false))
			d2 := f.Distinct(groupby.Columns(ks), groupby.Null(true))
			return hashFrame(g, false) ^ uint64(d.Len())*7919 ^ hashFrame(d2.Select(ks), false)*5
		}},
		{"GroupBy().Aggregate(in-place median)", func(e *c11Env, f qframe.QFrame, yield func()) uint64 {
			// a median sorts the slice it is handed: legal, the slice is documented to be the callback's to use during the call
			medI := func(v []int) int { yield(); sort.Ints(v); return v[len(v)/2] }
			medF := func(v []float64) float64 {
				sort.Slice(v, func(i, j int) bool { return v[i] < v[j] || (math.IsNaN(v[i]) && !math.IsNaN(v[j])) })
				return float64(len(v))
			}
			all := f.GroupBy().Aggregate(qframe.Aggregation{Fn: medI, Column: col(e, model.KInt, 0)}, qframe.Aggregation{Fn: medF, Column: col(e, model.KFloat, 0)})
			keyed := f.GroupBy(groupby.Columns(col(e, model.KBool, 0))).Aggregate(qframe.Aggregation{Fn: medI, Column: col(e, model.KInt, 1)})
			return hashFrame(all, false) ^ hashFrame(keyed, false)*7
		}},
		{"Eval(private ctx + SetFunc)", func(e *c11Env, f qframe.QFrame, _ func()) uint64 {
			// every call customises its own fresh context: contexts must not share state
			ctx := eval.NewDefaultCtx()
			_ = ctx.SetFunc("abs", func(x int) int { return x + 1000 })
			_ = ctx.SetFunc("mine", func(x int) int { return -x })
			ci := types.ColumnName(col(e, model.KInt, 0))
			a := f.Eval("pa", qframe.Expr("abs", ci), eval.EvalContext(ctx))
			b := f.Eval("pb", qframe.Expr("+", qframe.Expr("mine", ci), qframe.Expr("abs", ci)), eval.EvalContext(ctx))
			d := f.Eval("pd", qframe.Expr("abs", ci)) // default context: the built-in abs
			return hashFrame(a, true) ^ hashFrame(b, true)*3 ^ hashFrame(d, true)*5
		}},
		{"GroupBy.QFrames", func(e *c11Env, f qframe.QFrame, _ func()) uint64 {
			g := f.GroupBy(groupby.Columns(col(e, model.KBool, 0), col(e, model.KEnum, 0)))
			frames, err := g.QFrames()
			if err != nil {
				return 1
			}
			var acc uint64
			for _, fr := range frames {
				h := hashFrame(fr, true)
				acc += h * (h | 1)
			}
			return acc
		}},
		{"Apply(func())", func(e *c11Env, f qframe.QFrame, yield func()) uint64 {
			return hashFrame(f.Apply(qframe.Instruction{Fn: func() int { yield(); return 7 }, DstCol: "n0"}), true)
		}},
		{"Apply(func(T) U)", func(e *c11Env, f qframe.QFrame, yield func()) uint64 {
			return hashFrame(f.Apply(qframe.Instruction{Fn: func(x *string) int {
				yield()
				if x == nil {
					return -1
				}
				return len(*x)
			}, DstCol: "n1", SrcCol1: col(e, model.KString, 0)}, qframe.Instruction{Fn: func(x *string) *string { return x }, DstCol: "n1e", SrcCol1: col(e, model.KEnum, 0)}), true)
		}},
		{"Apply(func(T,T) T)", func(e *c11Env, f qframe.QFrame, yield func()) uint64 {
			return hashFrame(f.Apply(qframe.Instruction{Fn: func(x, y int) int { yield(); return x - y }, DstCol: "n2", SrcCol1: col(e, model.KInt, 0), SrcCol2: col(e, model.KInt, 1)}), true)
		}},
		{"Apply(ToUpper string)", func(e *c11Env, f qframe.QFrame, _ func()) uint64 {
			return hashFrame(f.Apply(qframe.Instruction{Fn: "ToUpper", DstCol: "up", SrcCol1: col(e, model.KString, 0)}), true)
		}},
		{"Apply(ToUpper enum, overwrite)", func(e *c11Env, f qframe.QFrame, _ func()) uint64 {
			c0 := col(e, model.KEnum, 0)
			return hashFrame(f.Apply(qframe.Instruction{Fn: "ToUpper", DstCol: c0, SrcCol1: c0}), true)
		}},
		{"Apply(const, copy)", func(e *c11Env, f qframe.QFrame, _ func()) uint64 {
			return hashFrame(f.Apply(qframe.Instruction{Fn: 1.5, DstCol: "k"}, qframe.Instruction{Fn: types.ColumnName(col(e, model.KString, 0)), DstCol: "kc"}), true)
		}},
		{"FilteredApply", func(e *c11Env, f qframe.QFrame, yield func()) uint64 {
			return hashFrame(f.FilteredApply(qframe.Filter{Column: col(e, model.KInt, 0), Comparator: ">", Arg: 0}, qframe.Instruction{Fn: func(x float64) float64 { yield(); return x * 2 }, DstCol: "fa", SrcCol1: col(e, model.KFloat, 0)}), true)
		}},
		{"Eval(default ctx)", func(e *c11Env, f qframe.QFrame, _ func()) uint64 {
			ci := types.ColumnName(col(e, model.KInt, 0))
			return hashFrame(f.Eval("ev", qframe.Expr("+", qframe.Expr("abs", ci), qframe.Expr("*", 2, ci), 1)), true)
		}},
		{"Eval(shared user ctx)", func(e *c11Env, f qframe.QFrame, _ func()) uint64 {
			cs := types.ColumnName(col(e, model.KString, 0))
			return hashFrame(f.Eval("evs", qframe.Expr("us2", qframe.Expr("upper", cs), cs), eval.EvalContext(e.ctx)), true)
		}},
		{"WithRowNums", func(e *c11Env, f qframe.QFrame, _ func()) uint64 { return hashFrame(f.WithRowNums("rn"), true) }},
		{"Select/Drop/Slice/Copy", func(e *c11Env, f qframe.QFrame, _ func()) uint64 {
			a := f.Select(col(e, model.KInt, 0), col(e, model.KString, 0), model.IDCol).Copy("cpy", col(e, model.KString, 0))
			b := f.Drop(col(e, model.KBool, 0)).Slice(1, f.Len()-1).Copy(col(e, model.KInt, 0), col(e, model.KInt, 1))
			return hashFrame(a, true) ^ hashFrame(b, true)*3
		}},
		{"Views", func(e *c11Env, f qframe.QFrame, _ func()) uint64 {
			var h uint64
			iv := f.MustIntView(col(e, model.KInt, 0))
			for i := 0; i < iv.Len(); i += 7 {
				h = h*31 + uint64(iv.ItemAt(i))
			}
			for _, v := range f.MustFloatView(col(e, model.KFloat, 0)).Slice() {
				if !math.IsNaN(v) {
					h = h*31 + math.Float64bits(v)
				}
			}
			bv := f.MustBoolView(col(e, model.KBool, 0))
			for i := 0; i < bv.Len(); i += 3 {
				if bv.ItemAt(i) {
					h++
				}
			}
			sv := f.MustStringView(col(e, model.KString, 0))
			for i := 0; i < sv.Len(); i += 5 {
				if p := sv.ItemAt(i); p != nil {
					h = h*31 + uint64(len(*p))
				}
			}
			for _, p := range f.MustEnumView(col(e, model.KEnum, 0)).Slice() {
				if p != nil {
					h = h*31 + uint64(len(*p))
				}
			}
			return h
		}},
		{"ToCSV", func(e *c11Env, f qframe.QFrame, _ func()) uint64 {
			var b bytes.Buffer
			if err := f.ToCSV(&b); err != nil {
				return 2
			}
			return fw.Hash64(b.String())
		}},
		{"ToCSV(Columns(reversed order), Header(false))", func(e *c11Env, f qframe.QFrame, _ func()) uint64 {
			names := f.ColumnNames()
			for i, j := 0, len(names)-1; i < j; i, j = i+1, j-1 {
				names[i], names[j] = names[j], names[i]
			}
			var b bytes.Buffer
			if err := f.ToCSV(&b, qcsv.Columns(names), qcsv.Header(false)); err != nil {
				return 2
			}
			return fw.Hash64(b.String())
		}},
		{"ToJSON", func(e *c11Env, f qframe.QFrame, _ func()) uint64 {
			var b bytes.Buffer
			if err := f.ToJSON(&b); err != nil {
				return 2
			}
			return fw.Hash64(b.String())
		}},
		{"String", func(e *c11Env, f qframe.QFrame, _ func()) uint64 { return fw.Hash64(f.String()) }},
		{"Equals", func(e *c11Env, f qframe.QFrame, _ func()) uint64 {
			eq1, _ := f.Equals(f)
			eq2, _ := f.Equals(f.Sort(qframe.Order{Column: model.IDCol, Reverse: true}))
			return fw.Hash64(eq1, eq2)
		}},
		{"ByteSize/ColumnTypeMap", func(e *c11Env, f qframe.QFrame, _ func()) uint64 {
			return fw.Hash64(f.ByteSize(), fmt.Sprint(f.ColumnNames()), fmt.Sprint(f.ColumnTypes()), len(f.ColumnTypeMap()), f.Len(), f.Contains("x"))
		}},
	}
}

func c11Pairs() int {
	k := len(c11Ops())
	return k * (k + 1) / 2
}

var c11RootKinds = []string{"slices", "const", "csv", "enums"}
var c11Relations = []string{"same-frame", "parent-child(shared index)", "siblings(shared columns)", "grown-parent(column added before)"}

func c11Root(rng *rand.Rand, kind string, n int) (qframe.QFrame, *c11Env, error) {
	f := &model.Frame{}
	env := &c11Env{rng: rng, cols: map[model.Kind][]string{}, ctx: newCtx(), n: n, strJoin: aggregation.StrJoin("|")}
	env.inInts = []int{3, -2, 5, 0, 1, -3, 2, 4, -1}
	env.inStrings = []string{"xab", "a", "äb", "ab", "", "b"}
	env.inFloats = []float64{2.5, -1, 0.25, -24.75, 7, 0}
	env.inIntsCopy, env.inStringsCopy, env.inFloatsCopy = append([]int(nil), env.inInts...), append([]string(nil), env.inStrings...), append([]float64(nil), env.inFloats...)
	// values include bytes that every writer has to escape (control characters, quotes, backslash, multi-byte runes)
	enumVals := []string{"v1", "v2", "v3", "V4", "ab", "Ab", "v\x02", "q\"v"}
	strs := []string{"a", "ab", "aB", "xab", "b", "", "äb", "a-b", "ı", "ß", "\x01a", "a\x1fb", "\x00", "\x07\x08\x0c", "q\"uote", "back\\slash", "日本ɐɐɐɐɐɐa"}
	for j := 0; j < 2; j++ {
		for _, k := range model.AllKinds {
			name := fmt.Sprintf("%s%d", k.String()[:1], j)
			col := model.NewCol(name, k, n)
			for r := 0; r < n; r++ {
				switch k {
				case model.KInt:
					col.I[r] = rng.Intn(9) - 3
				case model.KFloat:
					col.F[r] = float64(rng.Intn(200)-100) / 4
					if rng.Intn(15) == 0 {
						col.F[r] = math.NaN()
					}
				case model.KBool:
					col.B[r] = rng.Intn(2) == 0
				case model.KString:
					if rng.Intn(12) > 0 {
						col.S[r] = model.StrP(strs[rng.Intn(len(strs))])
					}
				case model.KEnum:
					if rng.Intn(12) > 0 {
						col.S[r] = model.StrP(enumVals[rng.Intn(len(enumVals))])
					}
				}
				if kind == "const" && j == 0 {
					if r == 0 && (k == model.KString || k == model.KEnum) && col.S[0] == nil {
						// a constant null key column makes every row its own group with one common hash under
						// Null(false): qframe then probes quadratically (a performance trait, not a property)
						col.S[0] = model.StrP("v1")
					}
					if r > 0 {
						col.Set(r, col, 0)
					}
				}
			}
			if k == model.KEnum {
				col.EnumKnown = true
				if j == 0 || kind == "enums" {
					col.EnumVals = enumVals
				}
			}
			env.cols[k] = append(env.cols[k], name)
			f.Cols = append(f.Cols, col)
		}
	}
	id := model.NewCol(model.IDCol, model.KInt, n)
	for r := range id.I {
		id.I[r] = r
	}
	f.Cols = append(f.Cols, id)
	var qf qframe.QFrame
	if kind == "csv" {
		ok, en := model.CanCSV(f)
		if !ok {
			// nulls together with "" cells: replace "" cells
			for _, c := range f.Cols {
				for r, s := range c.S {
					if s != nil && *s == "" {
						c.S[r] = model.StrP("e")
					}
				}
			}
			_, en = model.CanCSV(f)
		}
		qf = model.BuildCSV(rng, f, en)
	} else {
		qf = model.BuildNew(rng, f) // BuildNew uses Const* for constant columns with probability 1/4; force below
		if kind == "const" {
			data := map[string]interface{}{}
			enums := map[string][]string{}
			for _, c := range f.Cols {
				switch {
				case strings.HasSuffix(c.Name, "0") && c.Kind == model.KInt:
					data[c.Name] = qframe.ConstInt{Val: c.I[0], Count: n}
				case strings.HasSuffix(c.Name, "0") && c.Kind == model.KFloat:
					data[c.Name] = qframe.ConstFloat{Val: c.F[0], Count: n}
				case strings.HasSuffix(c.Name, "0") && c.Kind == model.KBool:
					data[c.Name] = qframe.ConstBool{Val: c.B[0], Count: n}
				case strings.HasSuffix(c.Name, "0") && (c.Kind == model.KString || c.Kind == model.KEnum):
					data[c.Name] = qframe.ConstString{Val: c.S[0], Count: n}
				case c.Kind == model.KInt:
					data[c.Name] = append([]int(nil), c.I...)
				case c.Kind == model.KFloat:
					data[c.Name] = append([]float64(nil), c.F...)
				case c.Kind == model.KBool:
					data[c.Name] = append([]bool(nil), c.B...)
				default:
					data[c.Name] = append([]*string(nil), c.S...)
				}
				if c.Kind == model.KEnum {
					enums[c.Name] = c.EnumVals
				}
			}
			qf = qframe.New(data, newqfEnums(enums))
		}
	}
	env.sharedClause = qframe.Or(
		qframe.And(qframe.Filter{Column: env.cols[model.KInt][0], Comparator: "in", Arg: env.inInts}, qframe.Filter{Column: env.cols[model.KString][0], Comparator: "in", Arg: env.inStrings, Inverse: true}),
		qframe.Filter{Column: env.cols[model.KFloat][0], Comparator: "in", Arg: env.inFloats},
		qframe.Filter{Column: env.cols[model.KInt][0], Comparator: ">", Arg: types.ColumnName(env.cols[model.KFloat][1])},
		qframe.Filter{Column: env.cols[model.KFloat][0], Comparator: "<", Arg: types.ColumnName(env.cols[model.KInt][1]), Inverse: true},
		qframe.Filter{Column: env.cols[model.KInt][1], Comparator: "=", Arg: types.ColumnName(env.cols[model.KInt][0])},
		qframe.Not(qframe.Filter{Column: env.cols[model.KInt][1], Comparator: "in", Arg: env.inInts}))
	return qf, env, qf.Err
}

func runC11(c *fw.Case) {
	rng := c.Rng
	ops := c11Ops()
	np := c11Pairs()
	n := 700 + rng.Intn(1100)
	if c.Thorough() && rng.Intn(8) == 0 {
		n = 8000
	}
	runtime.GOMAXPROCS([]int{2, 4, 4, 8}[rng.Intn(4)])
	kindIx := (c.No / np) % len(c11RootKinds)
	blk := c.No / np
	relIx := (blk + blk/len(c11RootKinds)) % len(c11Relations)
	if !c.Thorough() {
		kindIx, relIx = rng.Intn(len(c11RootKinds)), rng.Intn(len(c11Relations))
	}
	storm := c.No >= np*2 && !c.Thorough() || c.No >= np*8
	if c.No%50 == 11 {
		n = 33000 + rng.Intn(8000) // frames beyond 2^15 rows (size thresholds of pooled or cached structures)
		c.Count("large_frames", 1)
	}
	// Two identical roots are built from the same PRNG state: the sequential reference results are computed on the
	// first one, the concurrent phase runs on the second one, which has never been touched before - so anything
	// that is initialised lazily on first use is initialised *during* the concurrent phase.
	rootSeed := rng.Int63()
	seqRoot, seqEnv, err0 := c11Root(rand.New(rand.NewSource(rootSeed)), c11RootKinds[kindIx], n)
	root, env, err := c11Root(rand.New(rand.NewSource(rootSeed)), c11RootKinds[kindIx], n)
	if err != nil || err0 != nil {
		c.Count("root_build_failed", 1)
		return
	}
	// frames related to the root
	related := func(root qframe.QFrame) (fa, fb qframe.QFrame) {
		switch c11Relations[relIx] {
		case "same-frame":
			fa, fb = root, root
		case "parent-child(shared index)":
			sorted := root.Sort(qframe.Order{Column: env.cols[model.KInt][0]}, qframe.Order{Column: model.IDCol, Reverse: true})
			fa, fb = sorted, sorted.Slice(10, sorted.Len()-10)
		case "siblings(shared columns)":
			fa = root.Filter(qframe.Filter{Column: model.IDCol, Comparator: func(x int) bool { return x%3 != 0 }})
			fb = root.Sort(qframe.Order{Column: env.cols[model.KFloat][0], Reverse: true}, qframe.Order{Column: model.IDCol})
		default:
			g := root.Copy("extra1", env.cols[model.KInt][0]).Apply(qframe.Instruction{Fn: 2, DstCol: "extra2"})
			fa, fb = g, g
		}
		return fa, fb
	}
	fa, fb := related(root)
	sa, sb := related(seqRoot)
	if fa.Err != nil || fb.Err != nil || sa.Err != nil || sb.Err != nil {
		c.Count("root_build_failed", 1)
		return
	}

	type job struct {
		op    c11Op
		frame qframe.QFrame // used in the concurrent phase (fresh)
		seq   qframe.QFrame // identical frame used for the sequential reference
		side  int
	}
	var jobs []job
	var label string
	if !storm {
		p := c.No % np
		// unrank the unordered pair
		i, j := 0, 0
		for k := p; ; i++ {
			if k < len(ops)-i {
				j = i + k
				break
			}
			k -= len(ops) - i
		}
		if n >= 33000 {
			// large frames: pairs among the operations whose internal structures depend on the frame size
			var sized []int
			for k, o := range ops {
				switch o.name {
				case "Distinct", "GroupBy.Aggregate", "GroupBy.QFrames", "Sort":
					sized = append(sized, k)
				}
			}
			i, j = sized[rng.Intn(len(sized))], sized[rng.Intn(len(sized))]
			if rng.Intn(2) == 0 {
				j = i
			}
		}
		label = fmt.Sprintf("pair {%s | %s} on %s, root %s (%d rows)", ops[i].name, ops[j].name, c11Relations[relIx], c11RootKinds[kindIx], n)
		jobs = []job{{ops[i], fa, sa, 0}, {ops[i], fa, sa, 0}, {ops[j], fb, sb, 1}, {ops[j], fb, sb, 1}}
		c.Count("relation:"+c11Relations[relIx], 1)
		c.Count("root:"+c11RootKinds[kindIx], 1)
	} else {
		g := 2 + rng.Intn(15)
		names := []string{}
		for k := 0; k < g; k++ {
			o := ops[rng.Intn(len(ops))]
			fr, sq := fa, sa
			if rng.Intn(2) == 0 {
				fr, sq = fb, sb
			}
			jobs = append(jobs, job{o, fr, sq, k})
			names = append(names, o.name)
		}
		sort.Strings(names)
		label = fmt.Sprintf("storm of %d goroutines %v on %s, root %s", g, names, c11Relations[relIx], c11RootKinds[kindIx])
		c.Count("storms", 1)
	}
	iters := 2
	if n >= 33000 {
		// hot loop on a large frame: 8 goroutines x 12 back-to-back executions of size-sensitive operations
		iters = 12
		a, b := jobs[0], jobs[len(jobs)-1]
		jobs = nil
		for k := 0; k < 8; k++ {
			jb := a
			if k%2 == 1 {
				jb = b
			}
			jb.side = k % 2
			jobs = append(jobs, jb)
		}
		label += fmt.Sprintf(" [hot loop: 8 goroutines x %d executions]", iters)
		runtime.GOMAXPROCS(8)
	}
	c.Describe(map[string]interface{}{"execution": label, "gomaxprocs": runtime.GOMAXPROCS(0)})

	// values shared by all goroutines exist twice as well: the reference run uses seqEnv's, the concurrent phase env's
	for _, jb := range jobs {
		if strings.HasPrefix(jb.op.name, "one shared Grouper") && !env.groupers {
			keys := groupby.Columns(env.cols[model.KInt][0], env.cols[model.KEnum][0])
			env.gA, env.gB, env.gALen, env.groupers = fa.GroupBy(keys), fb.GroupBy(keys), fa.Len(), true
			seqEnv.gA, seqEnv.gB, seqEnv.gALen, seqEnv.groupers = sa.GroupBy(keys), sb.GroupBy(keys), sa.Len(), true
			c.Count("cases_with_shared_groupers", 1)
		}
	}
	noYield := func() {}
	// sequential reference results
	seq := make([]uint64, len(jobs))
	ok := c.GuardFail("sequential", label, func() {
		for k, jb := range jobs {
			seq[k] = jb.op.run(seqEnv, jb.seq, noYield)
		}
	})
	if !ok {
		return
	}
	reps := 2
	overlapped := false
	if n >= 33000 {
		reps = 1
	}
	for rep := 0; rep < reps && !c.Failed(); rep++ {
		res := make([]uint64, len(jobs))
		pan := make([]interface{}, len(jobs))
		t0 := make([]time.Time, len(jobs))
		t1 := make([]time.Time, len(jobs))
		var wg sync.WaitGroup
		start := make(chan struct{})
		for k := range jobs {
			wg.Add(1)
			go func(k int) {
				defer wg.Done()
				jb := jobs[k]
				cnt := uint32(k*7919 + rep)
				yield := func() {
					cnt = cnt*1664525 + 1013904223
					if cnt>>28 == 0 {
						runtime.Gosched()
					}
				}
				<-start
				t0[k] = time.Now()
				pv, _ := fw.Guard(func() {
					// the operation runs several times back to back so that starts and ends of different goroutines interleave
					first := jb.op.run(env, jb.frame, yield)
					res[k] = first
					for it := 1; it < iters; it++ {
						if h := jb.op.run(env, jb.frame, yield); h != first {
							res[k] = h ^ 0x5bd1e995 // differs from the sequential result in any case
							return
						}
					}
				})
				t1[k] = time.Now()
				pan[k] = pv
			}(k)
		}
		close(start)
		wg.Wait()
		for k, jb := range jobs {
			c.Eval(1)
			if pan[k] != nil {
				c.Fail("panic:concurrent:"+jb.op.name, "%s: %s panicked while running concurrently: %v", label, jb.op.name, pan[k])
				break
			}
			if res[k] != seq[k] {
				c.Fail("result-differs:"+jb.op.name, "%s: %s returned a different result concurrently (%x) than alone (%x), repetition %d", label, jb.op.name, res[k], seq[k], rep)
				break
			}
		}
		for a := range jobs {
			for b := a + 1; b < len(jobs); b++ {
				if jobs[a].side != jobs[b].side && t0[a].Before(t1[b]) && t0[b].Before(t1[a]) {
					overlapped = true
				}
			}
		}
	}
	if c.Failed() {
		return
	}
	// alone again afterwards
	c.GuardFail("sequential-after", label, func() {
		for k, jb := range jobs {
			if h := jb.op.run(env, jb.frame, noYield); h != seq[k] {
				c.Fail("result-differs-after:"+jb.op.name, "%s: %s returns %x alone after the concurrent phase, %x before", label, jb.op.name, h, seq[k])
				return
			}
		}
	})
	// the value lists handed to the library inside the shared clause are the caller's: they must be as they were
	if fmt.Sprint(env.inInts) != fmt.Sprint(env.inIntsCopy) || fmt.Sprint(env.inStrings) != fmt.Sprint(env.inStringsCopy) || fmt.Sprint(env.inFloats) != fmt.Sprint(env.inFloatsCopy) {
		c.Fail("argument-changed", "%s: a value list passed as Filter argument was modified: ints %v (was %v), strings %q (was %q), floats %v (was %v)", label,
			env.inInts, env.inIntsCopy, env.inStrings, env.inStringsCopy, env.inFloats, env.inFloatsCopy)
		return
	}
	if !storm {
		c.Count("pair_executions", 1)
		if overlapped {
			c.Count("pair_executions_overlapping", 1)
			c.Nontrivial(c.No%np, relIx, kindIx)
		}
	} else if overlapped {
		c.Nontrivial("storm", label)
		c.Count("storms_overlapping", 1)
	}
}
