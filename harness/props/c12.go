package props

import (
	"errors"
	"fmt"
	"io"
	"math"
	"math/rand"
	"sort"
	"strconv"
	"strings"

	"github.com/tobgu/qframe"
	"github.com/tobgu/qframe/config/csv"

	"qverif/fw"
	"qverif/model"
)

func init() {
	fw.Register(&fw.Property{
		ID:    "C12",
		Level: "exploration",
		Rule: "case = one RFC 4180 document serialised from a model (random quoting style, LF/CRLF, final line break or not, delimiter, cell classes: ints, floats, bools, empty, text needing quotes, doubled quotes at field start/end, fields straddling 1 KiB and its doublings) " +
			"plus a configuration (EmptyNull, IgnoreEmptyLines, Headers, Types/EnumValues, RenameDuplicateColumns, MissingColumnNameAlias, RowCountHint), read under many schedules: whole, one byte at a time, EVERY single split point, (documents <= 96 bytes) EVERY pair of split points and (thorough, documents <= 32 bytes) EVERY triple, " +
			"splits at +-1 around every quote/delimiter/CR/LF and around offsets 1024/2049/4099 for long documents, random chunk sizes, EOF delivered with or after the last data; evaluation = one ReadCSV call compared with the denoted header/types/cells; " +
			"non-trivial = document with a quoted field containing a quote, delimiter or line break read under a schedule that splits inside it; distinct by (document, configuration, schedule)",
		Assumptions: []string{
			"readers return at least one byte or an error; cells contain no CR; single-column documents have no empty cells when IgnoreEmptyLines is set; zero-row documents only with explicit types",
			"type inference is int if all cells Atoi, else float if all cells ParseFloat or empty, else bool if all ParseBool, else string (strconv decides what parses)",
		},
		Exhaustive: func(string) bool { return false },
		Stages:     stages(2000, 30000, 200, 200),
		RunCase:    runC12,
		Conclude: func(tier string, c map[string]int64, _ []string) string {
			if c["schedules:single-split-exhaustive-docs"] == 0 || c["schedules:pair-split-exhaustive-docs"] == 0 {
				return "no document was read under the exhaustive split schedules"
			}
			return ""
		},
	})
}

// ---------------------------------------------------------------- document model

type csvDoc struct {
	names                          []string // header cells as written (may contain duplicates / empty)
	cells                          [][]string
	headers                        bool // header row written in the document (false: passed through csv.Headers)
	delim                          byte
	headersWithOptions             bool
	emptyHeadersOption             bool
	crlf                           bool
	finalNL                        bool
	quoting                        int // 0 needed, 1 always, 2 random
	blankAt                        map[int]bool
	emptyNull, ignoreEmpty, rename bool
	alias                          string
	types                          map[int]string // declared type per column position
	enumVals                       map[int][]string
	hint                           int
	bytes                          []byte
	quotedSpans                    [][2]int // byte ranges of quoted fields with special content
}

func (d *csvDoc) field(rng *rand.Rand, s string, forceQuote bool, out *[]byte) {
	needs := strings.ContainsAny(s, "\"\n\r") || strings.IndexByte(s, d.delim) >= 0
	q := needs || forceQuote || d.quoting == 1 || (d.quoting == 2 && rng.Intn(2) == 0)
	if !q {
		*out = append(*out, s...)
		return
	}
	start := len(*out)
	*out = append(*out, '"')
	*out = append(*out, strings.ReplaceAll(s, `"`, `""`)...)
	*out = append(*out, '"')
	if needs {
		d.quotedSpans = append(d.quotedSpans, [2]int{start, len(*out)})
	}
}

func (d *csvDoc) serialise(rng *rand.Rand) {
	var out []byte
	eol := "\n"
	if d.crlf {
		eol = "\r\n"
	}
	single := len(d.names) == 1
	writeRow := func(row []string, last bool) {
		for i, s := range row {
			if i > 0 {
				out = append(out, d.delim)
			}
			d.field(rng, s, single && s == "", &out)
		}
		if !last || d.finalNL {
			out = append(out, eol...)
		}
	}
	nrec := len(d.cells)
	if d.headers {
		writeRow(d.names, nrec == 0)
	}
	for r, row := range d.cells {
		if d.blankAt[r] {
			out = append(out, eol...)
		}
		writeRow(row, r == nrec-1)
	}
	if d.blankAt[nrec] && d.finalNL && nrec > 0 {
		out = append(out, eol...)
	}
	d.bytes = out
}

var cellInts = []string{"0", "1", "-1", "42", "+7", "007", "-0", "9223372036854775807", "123456", "-9223372036854775808", "00000000000000000000012", "+0"}

// integers at and beyond the limits of int: they do not parse as int, an untyped column holding one is a float column
var cellBigInts = []string{"9223372036854775808", "-9223372036854775809", "18446744073709551615", "18446744073709551616", "18446744073709551621", "20000000000000000000", "99999999999999999999", "-18446744073709551616", "123456789012345678901234567890"}
var cellFloats = []string{"1.5", "-0.25", "1e3", "", "NaN", "Inf", "-Inf", ".5", "5.", "1E-2", "0x1p-2", "3.14159", "1e400", "4.9e-324"}
var cellBools = []string{"true", "false", "TRUE", "False", "t", "F", "T"}
var cellTexts = []string{"a", "abc", "", " ", " a", "a ", "a b", "x,y", "a;b", "say \"hi\"", "\"", "\"\"", "\"start", "end\"", "\"both\"", "line\nbreak", "\n", "\nx", "x\n", "a\n\"b\",c\n", "é", "日本", "\xff\xfe", "tab\there", "1x", "true1", "null", "'q'", "a\"\"b", ",", ",,", "\",\"", "#", "\\", "\\\"", "a|b", "\t"}

func longCell(rng *rand.Rand) string {
	base := []int{1000, 1015, 1016, 1017, 1018, 1019, 1020, 1021, 1022, 1023, 1024, 1025, 1030, 2040, 2047, 2048, 2049, 2060, 4090, 4099, 4110, 5000, 8190, 8199, 8210, 9000}[rng.Intn(26)]
	var sb strings.Builder
	for sb.Len() < base {
		switch rng.Intn(12) {
		case 0:
			sb.WriteString("\"")
		case 1:
			sb.WriteString("\"\"")
		case 2:
			sb.WriteString(",")
		case 3:
			sb.WriteString("\n")
		default:
			sb.WriteString("abcdefghij"[:1+rng.Intn(9)])
		}
	}
	s := sb.String()
	if rng.Intn(3) == 0 {
		s = "\"" + s
	}
	if rng.Intn(3) == 0 {
		s = s + "\""
	}
	return s
}

func genDoc(rng *rand.Rand, class string) *csvDoc {
	d := &csvDoc{headers: true, delim: ',', finalNL: rng.Intn(2) == 0, crlf: rng.Intn(3) == 0, quoting: rng.Intn(3), blankAt: map[int]bool{}, types: map[int]string{}, enumVals: map[int][]string{}}
	if rng.Intn(3) == 0 {
		d.delim = []byte{';', '\t', '|', ' ', ':', 'x', 0x01, 0x80, 0xa7, 0xc3, 0xe6, 0xff, 0x7f, '0', '.', '-'}[rng.Intn(16)]
	}
	ncols := 1 + rng.Intn(5)
	nrows := rng.Intn(7)
	switch class {
	case "tiny":
		ncols, nrows = 1+rng.Intn(3), rng.Intn(4)
	case "long":
		ncols, nrows = 1+rng.Intn(3), 1+rng.Intn(6)
	case "manyrows":
		ncols, nrows = 1+rng.Intn(3), 1001+rng.Intn(2500)
		d.hint = 2001 + rng.Intn(1800) // sometimes below, sometimes above the real row count
	}
	d.emptyNull = rng.Intn(2) == 0
	// column classes
	colClass := make([]string, ncols)
	for i := range colClass {
		colClass[i] = []string{"int", "float", "bool", "text", "text", "mixed", "enum"}[rng.Intn(7)]
		if class == "manyrows" {
			colClass[i] = []string{"int", "text", "float"}[rng.Intn(3)]
		}
	}
	bigInts := make([]bool, ncols) // int-like columns that may hold integers beyond the int range
	for i := range bigInts {
		bigInts[i] = rng.Intn(4) == 0
	}
	namePool := []string{"a", "b", "c", "col", "x y", "n,1", "q\"r", "é", "A", "long_column_name", "1", "line\nname", " lead", "z"}
	used := map[string]bool{}
	for i := 0; i < ncols; i++ {
		for {
			nm := namePool[rng.Intn(len(namePool))]
			if !used[nm] {
				used[nm] = true
				d.names = append(d.names, nm)
				break
			}
		}
	}
	// header options
	switch rng.Intn(8) {
	case 0:
		if ncols >= 2 {
			d.rename = true
			d.names[ncols-1] = d.names[0]
			if ncols >= 3 && rng.Intn(2) == 0 {
				d.names[1] = d.names[0]
			} else if ncols >= 3 && rng.Intn(2) == 0 {
				// a column that already carries a name of the form <duplicated name><digit>
				d.names[1+rng.Intn(ncols-2)] = d.names[0] + []string{"0", "1", "00"}[rng.Intn(3)]
				if rng.Intn(2) == 0 {
					d.names[ncols-1], d.names[1] = d.names[1], d.names[ncols-1]
				}
			}
		}
	case 1:
		d.alias = "missing"
		d.names[rng.Intn(ncols)] = ""
	case 2:
		d.headers = false
	}
	if d.headers && (d.rename || d.alias != "") && rng.Intn(3) == 0 {
		// the names come from csv.Headers instead of the document: alias and renaming apply to them as well
		d.headers = false
		d.headersWithOptions = true
	}
	d.emptyHeadersOption = d.headers && rng.Intn(12) == 0
	for r := 0; r < nrows; r++ {
		row := make([]string, ncols)
		for i := range row {
			switch colClass[i] {
			case "int":
				row[i] = cellInts[rng.Intn(len(cellInts))]
				if bigInts[i] && rng.Intn(3) == 0 {
					row[i] = cellBigInts[rng.Intn(len(cellBigInts))]
				}
			case "float":
				row[i] = cellFloats[rng.Intn(len(cellFloats))]
				if rng.Intn(4) == 0 {
					// full-precision decimals as serialisers print them (15 to 17 significant digits)
					v := (rng.Float64()*2 - 1) * []float64{1, 100, 1e4, 1e8, 1e-3}[rng.Intn(5)]
					if rng.Intn(3) == 0 {
						v = float64(rng.Intn(1000)) / 7
					}
					row[i] = strconv.FormatFloat(v, 'f', -1, 64)
				}
				if rng.Intn(3) == 0 {
					row[i] = cellInts[rng.Intn(len(cellInts))]
				}
			case "bool":
				row[i] = cellBools[rng.Intn(len(cellBools))]
			case "enum":
				row[i] = []string{"red", "green", "b,lue", "", "\"q\""}[rng.Intn(5)]
			case "text":
				row[i] = cellTexts[rng.Intn(len(cellTexts))]
				if class == "long" && rng.Intn(3) == 0 {
					row[i] = longCell(rng)
				}
			default:
				all := [][]string{cellInts, cellFloats, cellBools, cellTexts}[rng.Intn(4)]
				row[i] = all[rng.Intn(len(all))]
			}
			if class == "manyrows" && colClass[i] == "text" {
				row[i] = cellTexts[rng.Intn(12)]
			}
		}
		d.cells = append(d.cells, row)
	}
	// declared types
	for i := 0; i < ncols; i++ {
		name := d.names[i]
		// Declared types are keyed by the final column name. An aliased column is declared under the alias; with
		// duplicate names only the first occurrence keeps the name (and the declared type), renamed ones are inferred.
		firstOcc := true
		for j := 0; j < i; j++ {
			if d.names[j] == name {
				firstOcc = false
			}
		}
		if !firstOcc {
			continue
		}
		if name == "" && d.alias == "" {
			continue
		}
		if nrows == 0 || rng.Intn(4) == 0 || ((d.rename || name == "") && rng.Intn(2) == 0) || (bigInts[i] && colClass[i] == "int" && rng.Intn(2) == 0) {
			switch colClass[i] {
			case "int":
				d.types[i] = []string{"int", "float", "string"}[rng.Intn(3)]
			case "float":
				d.types[i] = []string{"float", "string"}[rng.Intn(2)]
			case "bool":
				d.types[i] = []string{"bool", "string", "enum"}[rng.Intn(3)]
			case "enum":
				d.types[i] = "enum"
				if rng.Intn(2) == 0 {
					vals := []string{"green", "\"q\"", "red", "b,lue", "extra"}
					if !d.emptyNull {
						vals = append(vals, "")
					}
					d.enumVals[i] = vals
				}
			default:
				d.types[i] = []string{"string", "enum"}[rng.Intn(2)]
				if d.types[i] == "enum" {
					distinct := map[string]bool{}
					for _, row := range d.cells {
						distinct[row[i]] = true
					}
					if len(distinct) > 200 {
						d.types[i] = "string"
					}
				}
			}
		}
	}
	// blank lines
	single := ncols == 1
	if rng.Intn(4) == 0 {
		d.ignoreEmpty = true
		if single {
			// no empty cells in single column documents with IgnoreEmptyLines
			for _, row := range d.cells {
				if row[0] == "" {
					row[0] = "e"
					if colClass[0] == "int" || colClass[0] == "float" {
						row[0] = "3"
					}
					if colClass[0] == "bool" {
						row[0] = "true"
					}
					if colClass[0] == "enum" {
						row[0] = "red"
					}
				}
			}
		}
		for k := 0; k < 1+rng.Intn(2); k++ {
			d.blankAt[rng.Intn(nrows+1)] = true
		}
	}
	d.serialise(rng)
	return d
}

// ---------------------------------------------------------------- expected result

func (d *csvDoc) expected() (*model.Frame, []string, error) {
	ncols := len(d.names)
	f := &model.Frame{}
	origNames := append([]string(nil), d.names...)
	for i := 0; i < ncols; i++ {
		cells := make([]string, len(d.cells))
		for r, row := range d.cells {
			cells[r] = row[i]
		}
		typ, declared := d.types[i]
		if !declared {
			allInt, allFloat, allBool := true, true, true
			for _, s := range cells {
				if _, err := strconv.Atoi(s); err != nil {
					allInt = false
				}
				if s != "" {
					if _, err := strconv.ParseFloat(s, 64); err != nil {
						allFloat = false
					}
				}
				if _, err := strconv.ParseBool(s); err != nil {
					allBool = false
				}
			}
			switch {
			case allInt:
				typ = "int"
			case allFloat:
				typ = "float"
			case allBool:
				typ = "bool"
			default:
				typ = "string"
			}
		}
		k, _ := model.KindOf(typ)
		col := model.NewCol(origNames[i], k, len(cells))
		for r, s := range cells {
			switch k {
			case model.KInt:
				v, err := strconv.Atoi(s)
				if err != nil {
					if typ, declared := d.types[i]; declared && typ == "int" {
						if _, ferr := strconv.ParseFloat(s, 64); ferr == nil || errors.Is(ferr, strconv.ErrRange) {
							return nil, nil, errDeclaredIntOutOfRange
						}
					}
					return nil, nil, fmt.Errorf("generator error: declared int cell %q", s)
				}
				col.I[r] = v
			case model.KFloat:
				if s == "" {
					col.F[r] = math.NaN()
				} else {
					v, err := strconv.ParseFloat(s, 64)
					if err != nil && !errors.Is(err, strconv.ErrRange) {
						return nil, nil, fmt.Errorf("generator error: declared float cell %q", s)
					}
					if err != nil {
						return nil, nil, errSkip
					}
					col.F[r] = v
				}
			case model.KBool:
				v, err := strconv.ParseBool(s)
				if err != nil {
					return nil, nil, fmt.Errorf("generator error: declared bool cell %q", s)
				}
				col.B[r] = v
			default:
				if !(s == "" && d.emptyNull) {
					col.S[r] = model.StrP(s)
				}
			}
		}
		f.Cols = append(f.Cols, col)
	}
	return f, origNames, nil
}

var errSkip = errors.New("skip")

// errDeclaredIntOutOfRange: a column declared int holds an integer that does not fit an int; the only faithful outcomes
// are an error (the document cannot be represented under the requested types) - never a frame with another number in the cell.
var errDeclaredIntOutOfRange = errors.New("declared int column holds an integer outside the int range")

func (d *csvDoc) config() []csv.ConfigFunc {
	fns := []csv.ConfigFunc{csv.EmptyNull(d.emptyNull), csv.IgnoreEmptyLines(d.ignoreEmpty)}
	if d.delim != ',' {
		fns = append(fns, csv.Delimiter(d.delim))
	}
	if d.headers && d.emptyHeadersOption {
		// an empty list of names is no list of names: the header is in the document
		fns = append(fns, csv.Headers([]string{}))
	}
	if !d.headers {
		// ReadCSV may rename entries of the slice it is given: hand over a copy every time
		fns = append(fns, csv.Headers(append([]string(nil), d.names...)))
	}
	if d.rename {
		fns = append(fns, csv.RenameDuplicateColumns(true))
	}
	if d.alias != "" {
		fns = append(fns, csv.MissingColumnNameAlias(d.alias))
	}
	if d.hint > 0 {
		fns = append(fns, csv.RowCountHint(d.hint))
	}
	if len(d.types) > 0 {
		t := map[string]string{}
		ev := map[string][]string{}
		for i, typ := range d.types {
			key := d.names[i]
			if key == "" {
				key = d.alias
			}
			t[key] = typ
			if v, ok := d.enumVals[i]; ok {
				ev[key] = append([]string(nil), v...)
			}
		}
		fns = append(fns, csv.Types(t))
		if len(ev) > 0 {
			fns = append(fns, csv.EnumValues(ev))
		}
	}
	return fns
}

func (d *csvDoc) describe() map[string]interface{} {
	return map[string]interface{}{
		"document": strconv.Quote(clip(string(d.bytes), 1500)), "bytes": len(d.bytes), "delimiter": strconv.Quote(string(d.delim)), "crlf": d.crlf, "final_line_break": d.finalNL,
		"header_in_document": d.headers, "empty_null": d.emptyNull, "ignore_empty_lines": d.ignoreEmpty, "rename_duplicates": d.rename, "alias": d.alias,
		"declared_types": fmt.Sprint(d.types), "row_count_hint": d.hint, "rows": len(d.cells), "columns": fmt.Sprintf("%q", d.names),
	}
}

// ---------------------------------------------------------------- fragmenting reader

type fragReader struct {
	data    []byte
	cuts    []int // ascending positions where a read must stop
	pos     int
	ci      int
	eofWith bool // deliver io.EOF together with the last bytes
	reads   int
	limit   int
	stuck   bool
}

func (r *fragReader) Read(p []byte) (int, error) {
	r.reads++
	if r.reads > r.limit {
		r.stuck = true
		return 0, errors.New("qverif: step bound exceeded (reader called too often)")
	}
	if r.pos >= len(r.data) {
		return 0, io.EOF
	}
	if len(p) == 0 {
		return 0, nil
	}
	end := len(r.data)
	for r.ci < len(r.cuts) && r.cuts[r.ci] <= r.pos {
		r.ci++
	}
	if r.ci < len(r.cuts) {
		end = r.cuts[r.ci]
	}
	if end-r.pos > len(p) {
		end = r.pos + len(p)
	}
	n := copy(p, r.data[r.pos:end])
	r.pos += n
	if r.pos >= len(r.data) && r.eofWith {
		return n, io.EOF
	}
	return n, nil
}

type schedule struct {
	name    string
	cuts    []int
	eofWith bool
}

func everyByte(n int) []int {
	c := make([]int, 0, n)
	for i := 1; i < n; i++ {
		c = append(c, i)
	}
	return c
}

func (d *csvDoc) schedules(rng *rand.Rand, thorough bool) ([]schedule, bool, bool) {
	n := len(d.bytes)
	var ss []schedule
	ss = append(ss, schedule{"whole", nil, false}, schedule{"whole+eof", nil, true}, schedule{"bytewise", everyByte(n), false}, schedule{"bytewise+eof", everyByte(n), true})
	singleEx, pairEx := false, false
	maxSingle := 400
	if thorough {
		maxSingle = 6000
	}
	if n <= maxSingle {
		singleEx = true
		for i := 1; i < n; i++ {
			ss = append(ss, schedule{"split1", []int{i}, i%2 == 0})
		}
	}
	if n <= 96 {
		pairEx = true
		for i := 1; i < n; i++ {
			for j := i + 1; j < n; j++ {
				ss = append(ss, schedule{"split2", []int{i, j}, (i+j)%3 == 0})
			}
		}
	}
	if thorough && n <= 32 {
		for i := 1; i < n; i++ {
			for j := i + 1; j < n; j++ {
				for k := j + 1; k < n; k++ {
					ss = append(ss, schedule{"split3", []int{i, j, k}, (i+j+k)%3 == 0})
				}
			}
		}
	}
	if !singleEx {
		// splits around structural bytes and buffer boundaries
		seen := map[int]bool{}
		var pts []int
		add := func(p int) {
			if p > 0 && p < n && !seen[p] {
				seen[p] = true
				pts = append(pts, p)
			}
		}
		for i, b := range d.bytes {
			if b == '"' || b == d.delim || b == '\r' || b == '\n' {
				add(i - 1)
				add(i)
				add(i + 1)
				add(i + 2)
			}
		}
		for _, o := range []int{1024, 2049, 4099, 8199} {
			for k := -3; k <= 3; k++ {
				add(o + k)
			}
		}
		sort.Ints(pts)
		limit := 300
		if thorough {
			limit = 3000
		}
		if len(pts) > limit {
			rng.Shuffle(len(pts), func(i, j int) { pts[i], pts[j] = pts[j], pts[i] })
			pts = pts[:limit]
		}
		for _, p := range pts {
			ss = append(ss, schedule{"split-structural", []int{p}, p%2 == 0})
		}
	}
	// random chunkings
	nr := 12
	if thorough {
		nr = 40
	}
	for k := 0; k < nr; k++ {
		var cuts []int
		pos := 0
		maxChunk := []int{2, 3, 5, 17, 100, 700, 1500}[rng.Intn(7)]
		for pos < n {
			pos += 1 + rng.Intn(maxChunk)
			if pos < n {
				cuts = append(cuts, pos)
			}
		}
		ss = append(ss, schedule{fmt.Sprintf("random<=%d", maxChunk), cuts, rng.Intn(2) == 0})
	}
	return ss, singleEx, pairEx
}

func (s schedule) splitsInside(spans [][2]int) bool {
	for _, c := range s.cuts {
		for _, sp := range spans {
			if c > sp[0] && c < sp[1] {
				return true
			}
		}
	}
	return false
}

// checkNames verifies the resulting column names against the option semantics.
func (d *csvDoc) checkNames(got []string) string {
	if len(got) != len(d.names) {
		return fmt.Sprintf("%d columns, want %d", len(got), len(d.names))
	}
	seen := map[string]bool{}
	first := map[string]int{}
	for i, o := range d.names {
		if _, ok := first[o]; !ok {
			first[o] = i
		}
	}
	for i, g := range got {
		o := d.names[i]
		if o == "" && d.alias != "" {
			o = d.alias
		}
		if seen[g] {
			return fmt.Sprintf("name %q appears twice in %q", g, got)
		}
		seen[g] = true
		if g == o {
			continue
		}
		if d.rename && first[d.names[i]] != i && strings.HasPrefix(g, o) {
			rest := g[len(o):]
			if _, err := strconv.Atoi(rest); err == nil && rest != "" {
				continue
			}
		}
		return fmt.Sprintf("column %d is named %q, original %q", i, g, d.names[i])
	}
	return ""
}

func runC12(c *fw.Case) {
	rng := c.Rng
	class := []string{"tiny", "tiny", "small", "small", "small", "long", "long", "manyrows"}[c.No%8]
	if class == "manyrows" && c.No%32 != 7 {
		class = "small"
	}
	d := genDoc(rng, class)
	want, _, err := d.expected()
	if err == errSkip {
		c.Count("skipped_range_error_docs", 1)
		return
	}
	if err == errDeclaredIntOutOfRange {
		c.Count("docs_with_out_of_range_cell_in_declared_int_column", 1)
		c.Eval(1)
		c.DescribeLazy(func() interface{} { return d.describe() })
		var res qframe.QFrame
		rd := &fragReader{data: d.bytes, eofWith: rng.Intn(2) == 0, limit: 10*len(d.bytes) + 1000}
		if rng.Intn(2) == 0 {
			for i := 1; i < len(d.bytes); i += 1 + rng.Intn(7) {
				rd.cuts = append(rd.cuts, i)
			}
		}
		if !c.GuardFail("declared-int-out-of-range", "ReadCSV", func() { res = qframe.ReadCSV(rd, d.config()...) }) {
			return
		}
		if res.Err == nil {
			c.Fail("accepts-out-of-range-int", "a column declared int holds an integer outside the int range, ReadCSV returned a frame of %d rows without error (the cell cannot hold the number the document denotes)", res.Len())
		}
		return
	}
	if err != nil {
		c.Count("generator_errors", 1)
		return
	}
	if len(d.cells) == 0 {
		// zero-row documents only with explicit types for every column
		full := true
		for i := range d.names {
			if _, ok := d.types[i]; !ok {
				full = false
			}
		}
		if !full {
			c.Count("skipped_zero_row_untyped_docs", 1)
			return
		}
	}
	c.Count("class:"+class, 1)
	scheds, singleEx, pairEx := d.schedules(rng, c.Thorough())
	if singleEx {
		c.Count("schedules:single-split-exhaustive-docs", 1)
	}
	if pairEx {
		c.Count("schedules:pair-split-exhaustive-docs", 1)
	}
	failing := ""
	c.DescribeLazy(func() interface{} {
		m := d.describe()
		m["schedules_tried"] = len(scheds)
		if failing != "" {
			m["failing_schedule"] = failing
		}
		return m
	})
	fails := 0
	// one set of option values serves every read of the document (a caller configures once and reads many files)
	cfg := d.config()
	for si, s := range scheds {
		c.Eval(1)
		c.Count("schedule:"+s.name, 1)
		rd := &fragReader{data: d.bytes, cuts: s.cuts, eofWith: s.eofWith, limit: 10*len(d.bytes) + 1000}
		var res qframe.QFrame
		sdesc := fmt.Sprintf("%s cuts=%v eof-with-data=%v", s.name, truncCuts(s.cuts), s.eofWith)
		inside := s.splitsInside(d.quotedSpans)
		if inside {
			c.Nontrivial(string(d.bytes), fmt.Sprint(s.cuts), s.eofWith, d.emptyNull, d.ignoreEmpty)
			c.Count("schedules_splitting_inside_special_quoted_field", 1)
		}
		keySuffix := scheduleKind(s)
		pv, stack := fw.Guard(func() { res = qframe.ReadCSV(rd, cfg...) })
		msg, key := "", ""
		switch {
		case pv != nil:
			key, msg = "panic:"+keySuffix, fmt.Sprintf("panic: %v\n%s", pv, clip(stack, 1200))
		case rd.stuck:
			key, msg = "livelock:"+keySuffix, fmt.Sprintf("reader was called more than %d times for a %d byte document", rd.limit, len(d.bytes))
		case res.Err != nil:
			key, msg = "err:"+keySuffix+":"+errKind(res.Err), fmt.Sprintf("well-formed document rejected: %v", res.Err)
		default:
			got, oerr := model.ObserveGuard(res)
			if oerr != nil {
				key, msg = "observe", oerr.Error()
				break
			}
			if nm := d.checkNames(got.Names()); nm != "" {
				key, msg = "names", nm
				break
			}
			// compare by position (names were checked above)
			wantPos := &model.Frame{}
			for i := range got.Cols {
				got.Cols[i].Name = fmt.Sprintf("column#%d", i)
				wc := *want.Cols[i]
				wc.Name = got.Cols[i].Name
				wantPos.Cols = append(wantPos.Cols, &wc)
			}
			if df := model.Diff(wantPos, got); df != "" {
				key, msg = "cells:"+keySuffix, df
			}
			// EnumValues honoured: the declared order is the column's order (observed by sorting on the column)
			if key == "" && len(d.enumVals) > 0 && (si == 1 || si == len(scheds)-1) {
				names := res.ColumnNames()
				for ci, vals := range d.enumVals {
					if ci >= len(names) || len(vals) < 2 {
						continue
					}
					rank := map[string]int{}
					for i, v := range vals {
						rank[v] = i
					}
					sorted := res.Sort(qframe.Order{Column: names[ci]})
					v, verr := sorted.EnumView(names[ci])
					if sorted.Err != nil || verr != nil {
						key, msg = "enum-order", fmt.Sprintf("column %q declared as enum over %q cannot be sorted/viewed as enum: %v %v", names[ci], vals, sorted.Err, verr)
						break
					}
					prev := -1
					for r := 0; r < v.Len(); r++ {
						p := v.ItemAt(r)
						if p == nil {
							continue
						}
						rk, ok := rank[*p]
						if !ok || rk < prev {
							key, msg = "enum-order", fmt.Sprintf("column %q declared as enum over %q: sorting on it gives %q at position %d after a value of rank %d (declared order not in force)", names[ci], vals, *p, r, prev)
							break
						}
						prev = rk
					}
					c.Count("enum_order_checks", 1)
				}
			}
		}
		if key != "" {
			fails++
			if failing == "" {
				failing = sdesc
			}
			if fails <= 3 {
				c.Fail(key, "ReadCSV under schedule [%s]: %s", sdesc, msg)
			}
		}
	}
}

func truncCuts(c []int) []int {
	if len(c) > 12 {
		return c[:12]
	}
	return c
}

func scheduleKind(s schedule) string {
	switch {
	case s.name == "whole" || s.name == "whole+eof":
		return "whole"
	case strings.HasPrefix(s.name, "bytewise"):
		return "bytewise"
	}
	return "fragmented"
}

func errKind(err error) string {
	s := err.Error()
	switch {
	case strings.Contains(s, "Wrong number of columns"):
		return "wrong-number-of-columns"
	case strings.Contains(s, "step bound"):
		return "step-bound"
	}
	if len(s) > 30 {
		s = s[:30]
	}
	return crashKeyLocal(s)
}

func crashKeyLocal(s string) string {
	var sb strings.Builder
	for _, r := range s {
		if (r >= 'a' && r <= 'z') || (r >= 'A' && r <= 'Z') {
			sb.WriteRune(r)
		} else {
			sb.WriteByte('-')
		}
	}
	return sb.String()
}
