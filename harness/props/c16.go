package props

import (
	"bytes"
	"fmt"
	"math"
	"strconv"

	"github.com/tobgu/qframe"

	"qverif/fw"
	"qverif/hooks"
)

const c16Struct = 2047 + 6 // one case per binary exponent + special classes

func init() {
	fw.Register(&fw.Property{
		ID:    "C16",
		Level: "exploration",
		Rule: "structured cases first: every binary exponent 0..2046 x mantissas {0,1,2,3,2^52-1,2^52-2,0x555..,0xAAA..,2^51,random} x both signs; powers of ten 1e-324..1e308 and powers of two with neighbours +-0..3 ulp; integers around 2^53 and 10^k; 17-digit halfway decimals; published hard cases; +-0, +-Inf; " +
			"then blocks of pseudo random bit patterns (a bijective mix of a counter, so all values are distinct by construction). Every value is formatted by the formatter ToJSON uses (through the verif hook) into five destination buffer states " +
			"(nil, empty with 0xFF-filled spare capacity, non-empty prefix, len==cap, growth in the middle) and compared byte for byte with strconv.AppendFloat(f,'f',-1,64) (prefix intact, text parses back to the same bits), and every 64th value plus all structured ones also travel through ToJSON of a three column frame; " +
			"evaluation = one value in one destination state; non-trivial = finite, non-zero and not an integer below 2^53; the distinct count is the number of non-trivial values (distinct by construction)",
		Assumptions: []string{
			"strconv.AppendFloat(f,'f',-1,64) is the reference (shortest round-trip digits, positional notation)",
			"a sample of the 2^64 bit patterns; NaN is excluded (written as null by ToJSON)",
			"direct access to the formatter needs the verif hook; without it only the ToJSON path is exercised",
		},
		Stages: func(tier string) []fw.Stage {
			if tier == "quick" {
				return []fw.Stage{{Name: "main", Flavour: "ptr", Cases: c16Struct + 48}}
			}
			return []fw.Stage{{Name: "main", Flavour: "ptr", Cases: c16Struct + 16*180}, {Name: "asan", Flavour: "asan", Cases: c16Struct + 32}}
		},
		RunCase: runC16,
	})
}

var c16Hard = []float64{5e-324, 2.2250738585072014e-308, 2.2250738585072011e-308, 2.2250738585072009e-308, 1.7976931348623157e308, 9007199254740993, 9007199254740992, 9007199254740991,
	0.1, 0.2, 0.3, 1e23, 8.41e21, 2.2250738585072012e-308, 6.631236871469758e-316, 3.237883913302901e-319, 9.5367431640625e-7, 4.4501477170144023e-308, 1e21, 1e22, 9.999999999999999e22,
	1.2345678901234567e-5, 123456789012345680, 0.000001, 0.0000001, 1e-7, 5e-7, 299792458, 4.35, 0.3 + 0.6, 1 / 3.0, 2 / 3.0, 100, 1e15, 1e16, 1e17, 4.9406564584124654e-324, 1.9999999999999998, 8.988465674311579e307,
	9.8813129168249309e-324, 1.18575755001899e-322, 5.562684646268003e-309, 1.1125369292536007e-308, 0.5, 0.25, 0.125, 1e-10, 123.456, 1e100, 1.7976931348623155e308}

type c16State struct {
	scratch [5][]byte
	want    []byte
}

func splitmix(x uint64) uint64 {
	x ^= x >> 30
	x *= 0xbf58476d1ce4e5b9
	x ^= x >> 27
	x *= 0x94d049bb133111eb
	x ^= x >> 31
	return x
}

// c16Direct checks one value in one destination state through the hook. Returns false on violation.
func c16Direct(c *fw.Case, st *c16State, f float64, state int, parse bool) bool {
	st.want = strconv.AppendFloat(st.want[:0], f, 'f', -1, 64)
	var dst []byte
	prefix := 0
	switch state {
	case 0:
		dst = nil
	case 1:
		b := st.scratch[1]
		if b == nil {
			b = make([]byte, 400)
			st.scratch[1] = b
		}
		for i := 0; i < 48; i++ {
			b[i] = 0xFF
		}
		dst = b[:0]
	case 2:
		b := st.scratch[2]
		if b == nil {
			b = make([]byte, 400)
			st.scratch[2] = b
		}
		copy(b, "ab:")
		for i := 3; i < 48; i++ {
			b[i] = 0xFF
		}
		dst, prefix = b[:3], 3
	case 3:
		b := []byte{'x', 'y', 'z'}
		dst, prefix = b[:3:3], 3
	default:
		b := make([]byte, 3, 5)
		copy(b, "{,:")
		dst, prefix = b, 3
	}
	var pre [3]byte
	copy(pre[:], dst[:prefix])
	out, ok := hooks.AppendFloat64f(dst, f)
	if !ok {
		return true
	}
	c.Eval(1)
	if len(out) < prefix || !bytes.Equal(out[:prefix], pre[:prefix]) {
		c.Fail("prefix-clobbered", "formatting %v (bits %016x) into destination state %d changed the bytes before the append position: %q", f, math.Float64bits(f), state, out)
		return false
	}
	if !bytes.Equal(out[prefix:], st.want) {
		c.Fail(fmt.Sprintf("text-differs:state%d", state), "float bits %016x: formatter wrote %q, strconv.AppendFloat(f,'f',-1,64) gives %q (destination state %d)", math.Float64bits(f), out[prefix:], st.want, state)
		return false
	}
	if parse {
		back, err := strconv.ParseFloat(string(out[prefix:]), 64)
		if err != nil || math.Float64bits(back) != math.Float64bits(f) {
			c.Fail("no-round-trip", "float bits %016x: text %q parses back to %016x (%v)", math.Float64bits(f), out[prefix:], math.Float64bits(back), err)
			return false
		}
	}
	return true
}

// c16ViaJSON sends the values through ToJSON of a frame {a: "x", f: value, i: row}.
func c16ViaJSON(c *fw.Case, vals []float64) bool {
	n := len(vals)
	if n == 0 {
		return true
	}
	ss := make([]string, n)
	is := make([]int, n)
	for i := range ss {
		ss[i] = "x"
		if i%3 == 0 {
			ss[i] = "a longer string that makes the row buffer grow"
		}
		is[i] = i
	}
	qf := qframe.New(map[string]interface{}{"a": ss, "f": append([]float64(nil), vals...), "i": is})
	if qf.Err != nil {
		return true
	}
	// a permuted index so that rows are not written in storage order
	qf = qf.Sort(qframe.Order{Column: "i", Reverse: true})
	var buf bytes.Buffer
	var werr error
	if !c.GuardFail("tojson", "ToJSON", func() { werr = qf.ToJSON(&buf) }) {
		return false
	}
	if werr != nil {
		c.Fail("tojson-err", "ToJSON failed: %v", werr)
		return false
	}
	doc := buf.Bytes()
	pos := 0
	for k := n - 1; k >= 0; k-- {
		a := bytes.Index(doc[pos:], []byte(`"f":`))
		if a < 0 {
			c.Fail("tojson-structure", "record for row %d not found in ToJSON output", k)
			return false
		}
		a += pos + 4
		e := bytes.Index(doc[a:], []byte(`,"i":`))
		if e < 0 {
			c.Fail("tojson-structure", "record for row %d not terminated in ToJSON output", k)
			return false
		}
		text := doc[a : a+e]
		pos = a + e
		c.Eval(1)
		want := strconv.AppendFloat(nil, vals[k], 'f', -1, 64)
		if !bytes.Equal(text, want) {
			c.Fail("text-differs:tojson", "float bits %016x: ToJSON wrote %q, strconv gives %q", math.Float64bits(vals[k]), text, want)
			return false
		}
		// the row number after it tells that the record belongs to this row
		rest := doc[pos+5:]
		num := strconv.Itoa(k)
		if !bytes.HasPrefix(rest, []byte(num+"}")) {
			c.Fail("tojson-structure", "record order: expected row %d after float %q", k, text)
			return false
		}
	}
	return true
}

func c16Nontrivial(f float64) bool {
	if math.IsNaN(f) || math.IsInf(f, 0) || f == 0 {
		return false
	}
	if f == math.Trunc(f) && math.Abs(f) < 1<<53 {
		return false
	}
	return true
}

func runC16(c *fw.Case) {
	st := &c16State{}
	var vals []float64
	label := ""
	add := func(f float64) {
		if !math.IsNaN(f) {
			vals = append(vals, f, -f)
		}
	}
	neighbours := func(f float64) {
		add(f)
		up, down := f, f
		for k := 0; k < 3; k++ {
			up = math.Nextafter(up, math.Inf(1))
			down = math.Nextafter(down, math.Inf(-1))
			add(up)
			add(down)
		}
	}
	rng := c.Rng
	switch {
	case c.No < 2047:
		e := uint64(c.No)
		label = fmt.Sprintf("binary exponent field %d", e)
		mants := []uint64{0, 1, 2, 3, 1<<52 - 1, 1<<52 - 2, 0x5555555555555, 0xAAAAAAAAAAAAA, 1 << 51, 1<<51 + 1, 1<<51 - 1}
		for k := 0; k < 40; k++ {
			mants = append(mants, rng.Uint64()&(1<<52-1))
		}
		for _, m := range mants {
			add(math.Float64frombits(e<<52 | m))
		}
	case c.No == 2047:
		label = "powers of ten with neighbours"
		for k := -324; k <= 308; k++ {
			f, _ := strconv.ParseFloat(fmt.Sprintf("1e%d", k), 64)
			neighbours(f)
		}
	case c.No == 2048:
		label = "powers of two with neighbours"
		for k := -1074; k <= 1023; k++ {
			neighbours(math.Ldexp(1, k))
		}
	case c.No == 2049:
		label = "integers around 2^53 and 10^k"
		for d := -40; d <= 40; d++ {
			add(float64(int64(1)<<53 + int64(d)))
			add(float64(int64(1)<<52 + int64(d)))
			add(float64(int64(1)<<54 + int64(d)*2))
		}
		p := 1.0
		for k := 0; k <= 22; k++ {
			neighbours(p)
			add(p - 1)
			add(p + 1)
			add(p / 2)
			p *= 10
		}
		for k := 0; k < 2000; k++ {
			add(float64(rng.Int63n(1 << 62)))
			add(float64(rng.Int63n(1 << 54)))
			add(float64(rng.Int63n(1000000)))
		}
	case c.No == 2050:
		label = "halfway decimals (17 significant digits)"
		for k := 0; k < 20000; k++ {
			digits := fmt.Sprintf("%d.%016d5e%d", 1+rng.Intn(9), rng.Int63n(1e16), rng.Intn(600)-300)
			f, err := strconv.ParseFloat(digits, 64)
			if err == nil {
				add(f)
			}
		}
	case c.No == 2051:
		label = "published hard cases, zeros, infinities, short decimals"
		for _, f := range c16Hard {
			neighbours(f)
		}
		add(0)
		add(math.Inf(1))
		for k := 0; k < 5000; k++ {
			f, _ := strconv.ParseFloat(fmt.Sprintf("%d.%d", rng.Intn(1000), rng.Intn(1000)), 64)
			add(f)
			add(float64(rng.Intn(100000)) / 100)
		}
	case c.No == 2052:
		label = "subnormals"
		for k := 0; k < 20000; k++ {
			add(math.Float64frombits(rng.Uint64() & (1<<52 - 1)))
			add(math.Float64frombits(uint64(rng.Int63n(1 << uint(1+rng.Intn(52))))))
		}
	default:
		// random block: bijective mix of a counter
		blk := uint64(c.No - c16Struct)
		size := 100000
		if c.Thorough() && c.StageNm == "main" {
			size = 1000000
		}
		label = fmt.Sprintf("random block %d of %d bit patterns", blk, size)
		seedMix := splitmix(uint64(c.Seed)*0x9e3779b97f4a7c15 + 12345)
		nt := int64(0)
		var jsonVals []float64
		okAll := true
		for i := 0; i < size && okAll; i++ {
			bits := splitmix((blk<<24 | uint64(i)) ^ seedMix)
			f := math.Float64frombits(bits)
			if math.IsNaN(f) {
				continue
			}
			if c16Nontrivial(f) && (hooks.Available || i%64 == 0) {
				nt++ // without the hook only the values that travel through ToJSON are judged
			}
			okAll = c16Direct(c, st, f, i%5, i%8 == 0)
			if i%64 == 0 {
				jsonVals = append(jsonVals, f)
			}
		}
		if okAll {
			c16ViaJSON(c, jsonVals)
		}
		c.NontrivialN(nt)
		c.Count("random_bit_patterns", int64(size))
		c.Describe(map[string]interface{}{"class": label, "first_values_bits": fmt.Sprintf("%016x %016x", splitmix((blk<<24)^seedMix), splitmix((blk<<24|1)^seedMix))})
		return
	}
	c.Count("structured_values", int64(len(vals)))
	nt := int64(0)
	for _, f := range vals {
		if c16Nontrivial(f) {
			nt++
		}
		for s := 0; s < 5; s++ {
			if !c16Direct(c, st, f, s, true) {
				break
			}
		}
		if c.Failed() {
			break
		}
	}
	if !c.Failed() {
		c16ViaJSON(c, vals)
	}
	// structured values may repeat across cases: count them through the hash set
	for _, f := range vals {
		if c16Nontrivial(f) {
			c.Nontrivial(math.Float64bits(f))
		}
	}
	_ = nt
	sample := []string{}
	for i := 0; i < len(vals) && i < 6; i++ {
		sample = append(sample, strconv.FormatFloat(vals[i], 'g', -1, 64))
	}
	c.Describe(map[string]interface{}{"class": label, "values": len(vals), "first_values": sample})
}
