package props

import (
	"fmt"

	"github.com/tobgu/qframe"

	"qverif/fw"
	"qverif/model"
)

func init() {
	fw.Register(&fw.Property{
		ID:    "C02",
		Level: "exploration",
		Rule: "case = one generated frame (all five column types, nulls, built via New/Const*/ReadCSV, pushed through 0-5 random Sort/Filter/Slice/Distinct/Select/Copy steps) x 8 random clause trees " +
			"(depth<=4, all comparators x argument kinds of table A.1, Inverse, And/Or/Not/Null, plus an equivalent rewrite of each); evaluation = one Filter call compared row-by-row with the reference evaluator over the observed rows; " +
			"non-trivial = reference keeps >=1 and drops >=1 row; distinct by (clause text, kept id list)",
		Assumptions: []string{
			"observation of frames through the typed views is faithful (monitored separately by C09)",
			"float constants compared with int columns are integral; ordering comparisons only on declared enums; like/ilike patterns here are ASCII and metacharacter free (C18 covers the matcher)",
			"any_bits means x&c != 0, all_bits means x&c == c",
		},
		Stages:   stages(20000, 1800000, 1500, 0),
		RunCase:  runC02,
		Conclude: shapeConclude(40),
	})
}

func c02Frame(c *fw.Case) (*model.Root, error) {
	rng := c.Rng
	maxRows := 300
	if c.Thorough() && rng.Intn(50) == 0 {
		maxRows = 5000
	}
	o := model.GenOpts{Rows: model.PickRows(rng, maxRows), MinCols: 2, MaxCols: 7, ID: true, NoCR: true}
	f := model.GenFrame(rng, o)
	// sometimes add a second enum column with the same declared values (column-column enum comparisons)
	for _, col := range f.Cols {
		if col.Kind == model.KEnum && col.Strict() && rng.Intn(2) == 0 && f.Col("e2") == nil {
			e2 := model.NewCol("e2", model.KEnum, f.Len())
			e2.EnumKnown, e2.EnumVals = true, col.EnumVals
			for i := range e2.S {
				if rng.Intn(6) > 0 {
					e2.S[i] = model.StrP(col.EnumVals[rng.Intn(len(col.EnumVals))])
				}
			}
			f.Cols = append(f.Cols, e2)
			break
		}
	}
	root, err := model.MakeRootFrom(rng, f, 5, true)
	if err == nil && rng.Intn(8) == 0 {
		// "however derived": also frames produced by Aggregate (their columns are built by other code than New's)
		if ar := aggregateDerive(rng, root); ar != nil {
			return ar, nil
		}
	}
	return root, err
}

func runC02(c *fw.Case) {
	rng := c.Rng
	root, err := c02Frame(c)
	if err != nil {
		c.Count("root_build_failed", 1)
		return
	}
	sh := root.Shadow
	c.Count("shape:"+root.Shape, 1)
	c.Count("built:"+root.Path, 1)
	kinds := sh.Kinds()
	var clauses []string
	c.DescribeLazy(func() interface{} {
		d := root.Describe(40)
		d["clauses"] = clauses
		return d
	})
	if len(sh.Cols) == 0 {
		return
	}
	for k := 0; k < 8; k++ {
		cl := model.GenClause(rng, sh, 1+rng.Intn(4))
		if cl == nil {
			continue
		}
		variants := []*model.Clause{cl}
		if rng.Intn(2) == 0 {
			variants = append(variants, model.Rewrite(rng, cl))
		}
		for vi, v := range variants {
			clauses = append(clauses, v.String())
			// reference
			var keep []int
			for r := 0; r < sh.Len(); r++ {
				if v.Eval(sh, r) {
					keep = append(keep, r)
				}
			}
			want := sh.Take(keep)
			var res qframe.QFrame
			c.Eval(1)
			c.Count("clauses", 1)
			if vi > 0 {
				c.Count("rewritten_clauses", 1)
			}
			shape := v.Shape(sh)
			real := v.Real(kinds)
			twice := rng.Intn(3) == 0
			if !c.GuardFail("filter", "Filter("+v.String()+")", func() {
				if twice {
					// one clause value serves two calls (also on another frame of the family); the second result is examined
					_ = root.QF.Slice(0, root.QF.Len()/2).Filter(real)
				}
				res = root.QF.Filter(real)
			}) {
				continue
			}
			if res.Err != nil {
				c.Fail("err:"+shape, "valid clause %s rejected: %v", v.String(), res.Err)
				continue
			}
			got, oerr := model.ObserveGuard(res)
			if oerr != nil {
				c.Fail("observe", "cannot observe result of %s: %v", v.String(), oerr)
				continue
			}
			if len(keep) > 0 && len(keep) < sh.Len() {
				c.Nontrivial(v.String(), idKey(want.IDs()))
				c.Count("nontrivial_clauses", 1)
			}
			if d := model.Diff(want, got); d != "" {
				c.Fail("mismatch:"+c02Key(v, sh), "Filter(%s) on frame of %d rows: %s; want ids %v, got ids %v", v.String(), sh.Len(), d, trunc(want.IDs()), trunc(got.IDs()))
			}
		}
	}
}

// c02Key computes a coarse key of the failing clause: the set of leaf shapes plus the operators used.
func c02Key(v *model.Clause, f *model.Frame) string {
	s := v.Shape(f)
	if len(s) > 80 {
		s = fmt.Sprintf("%s…#%x", s[:60], fw.Hash64(s)&0xffff)
	}
	return s
}

func trunc(v []int) []int {
	if len(v) > 30 {
		return v[:30]
	}
	return v
}
