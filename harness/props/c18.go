package props

import (
	"fmt"
	"math/rand"
	"regexp"
	"strings"
	"unicode"

	"github.com/tobgu/qframe"

	"qverif/fw"
	"qverif/model"
)

func init() {
	fw.Register(&fw.Property{
		ID:    "C18",
		Level: "exploration",
		Rule: "case = ~200 valid UTF-8 cells (alphabets rich in special casing: ı ſ ß İ ǅ K(U+212A) ɐ ⱥ ῃ µ ÿ, U+0080..U+00FF, 1-4 byte runes, lengths 0..40 and around 1000, nulls) held by one string column AND one enum column of the same derived frame, " +
			"x 12 patterns derived from the cells (whole/prefix/suffix/infix, case swapped) with every % placement, plus \"\", %, %%, inner %, regular-expression metacharacters and invalid regular expressions; each pattern is applied with like and ilike to both columns in one Filter call " +
			"and compared with the rule written from the statement; evaluation = one (pattern, comparator, column) filter; non-trivial = filter keeping >=1 and dropping >=1 non-null cell; distinct by (pattern, comparator, cells)",
		Assumptions: []string{
			"cells and patterns are valid UTF-8; upper-casing is rune-wise unicode.ToUpper (strings.ToUpper); regular expressions follow Go's regexp syntax with (?i) for ilike",
		},
		Stages:   stages(6000, 200000, 0, 200),
		RunCase:  runC18,
		Conclude: nil,
	})
}

var c18Runes = []rune("abcxyzABCXYZ019 _-ıſßİǅǆKɐⱥῃµÿŸéÉàÀσςΣдДﬁ\u0080\u0081ÿĀſKⱥῃ😀𐐨𐐀%.*+?()[]{}|^$\\")

func c18Cell(rng *rand.Rand) string {
	s := c18Cell0(rng)
	if rng.Intn(12) == 0 {
		// line breaks inside, in front of and behind the text
		rs := []rune(s)
		at := rng.Intn(len(rs) + 1)
		if rng.Intn(3) == 0 {
			at = len(rs)
		}
		s = string(rs[:at]) + "\n" + string(rs[at:])
	}
	return s
}

func c18Cell0(rng *rand.Rand) string {
	n := rng.Intn(9)
	switch rng.Intn(20) {
	case 0:
		n = 9 + rng.Intn(32)
	case 1:
		n = 990 + rng.Intn(40)
	}
	var sb strings.Builder
	if rng.Intn(12) == 0 {
		// runes whose upper case is longer than their lower case (2 -> 3 bytes): the upper-cased text outgrows the cell
		grow := []rune("ɐɑɒȿɀɫɽɱ")
		for i, m := 0, 5+rng.Intn(60); i < m; i++ {
			if rng.Intn(6) == 0 {
				sb.WriteRune(c18Runes[rng.Intn(22)])
			} else {
				sb.WriteRune(grow[rng.Intn(len(grow))])
			}
		}
		for i, m := 0, rng.Intn(12); i < m; i++ {
			sb.WriteRune(c18Runes[rng.Intn(22)])
		}
		return sb.String()
	}
	if rng.Intn(25) == 0 {
		// code points with an upper case form that are not letters (roman numerals, circled letters, the iota subscript), digits and punctuation
		odd := []rune("ⅰⅳⅸⅠⅣⅨⓐⓑⓩⒶⒷⓏ\u0345-0 7_")
		for i, m := 0, 1+rng.Intn(6); i < m; i++ {
			sb.WriteRune(odd[rng.Intn(len(odd))])
		}
		return sb.String()
	}
	if rng.Intn(10) == 0 {
		// short cells around one metacharacter with runes whose case folding is special (K/k/Kelvin, s/ſ, ı/I/i/İ, Å/Angstrom, ω/Ω/Ohm, ß/ẞ, θ/ϴ)
		fold := []rune("kKKsSſiIıİåÅÅωΩΩßẞθϴabT")
		for i, m := 0, 1+rng.Intn(4); i < m; i++ {
			sb.WriteRune(fold[rng.Intn(len(fold))])
		}
		sb.WriteRune([]rune(".$+?(|*")[rng.Intn(7)])
		for i, m := 0, rng.Intn(4); i < m; i++ {
			sb.WriteRune(fold[rng.Intn(len(fold))])
		}
		return sb.String()
	}
	// metacharacters and % are rare inside cells
	for i := 0; i < n; i++ {
		r := c18Runes[rng.Intn(len(c18Runes))]
		if strings.ContainsRune("%.*+?()[]{}|^$\\", r) && rng.Intn(4) > 0 {
			r = c18Runes[rng.Intn(40)]
		}
		sb.WriteRune(r)
	}
	return sb.String()
}

func swapCase(s string) string {
	var sb strings.Builder
	for _, r := range s {
		switch {
		case unicode.IsUpper(r):
			sb.WriteRune(unicode.ToLower(r))
		case unicode.IsLower(r):
			sb.WriteRune(unicode.ToUpper(r))
		default:
			sb.WriteRune(r)
		}
	}
	return sb.String()
}

func c18Pattern(rng *rand.Rand, cells []string) string {
	switch rng.Intn(14) {
	case 0:
		return []string{"", "%", "%%", "%%%", "a%b", "%a%b%", "% %"}[rng.Intn(7)]
	case 1:
		return []string{"a(", "[a", "a{2", "*", "(?P<x", "a\\", "+", "a**"}[rng.Intn(8)] // invalid regular expressions
	case 2:
		return []string{"a.c", "^a", "b$", "[ab]+", "a|b", "(ı|I)x", "\\d+", ".", ".*", "%.", ".%", "%a.%", "x?y", "K+", "ſ.", "[é-ÿ]", "\\.", "a\\%", "%(a)%"}[rng.Intn(19)]
	}
	base := cells[rng.Intn(len(cells))]
	rs := []rune(base)
	if len(rs) > 0 {
		switch rng.Intn(4) {
		case 0: // prefix
			rs = rs[:1+rng.Intn(len(rs))]
		case 1: // suffix
			rs = rs[rng.Intn(len(rs)):]
		case 2: // infix
			a := rng.Intn(len(rs))
			b := a + 1 + rng.Intn(len(rs)-a)
			rs = rs[a:b]
		}
		if len(rs) > 60 && rng.Intn(2) == 0 {
			rs = rs[:60]
		}
	}
	lit := string(rs)
	switch rng.Intn(4) {
	case 0:
		lit = swapCase(lit)
	case 1:
		lit = strings.ToUpper(lit)
	case 2:
		lit = strings.ToLower(lit)
	}
	if strings.ContainsAny(lit, ".*+?()[]{}|^$\\") && rng.Intn(2) == 0 {
		// the literal with every metacharacter escaped: still a regular expression by the rule of the property
		lit = regexp.QuoteMeta(lit)
	}
	if rng.Intn(8) == 0 {
		// the regular-expression spelling of the wildcards: ".*" does not cross line breaks and "$" is the very end
		q := regexp.QuoteMeta(lit)
		return []string{".*" + q + ".*", ".*" + q, q + ".*", "%" + q + ".*", ".*" + q + "%", ".+" + q, q + ".?"}[rng.Intn(7)]
	}
	switch rng.Intn(4) {
	case 0:
		return "%" + lit
	case 1:
		return lit + "%"
	case 2:
		return "%" + lit + "%"
	}
	return lit
}

func runC18(c *fw.Case) {
	rng := c.Rng
	// cells: a limited set of distinct values (the enum column can hold at most 255) repeated over ~200 rows
	ndist := 20 + rng.Intn(150)
	distinct := make([]string, 0, ndist)
	seen := map[string]bool{}
	for len(distinct) < ndist {
		s := c18Cell(rng)
		if rng.Intn(6) == 0 && len(distinct) > 0 {
			s = swapCase(distinct[rng.Intn(len(distinct))])
		}
		if !seen[s] {
			seen[s] = true
			distinct = append(distinct, s)
		}
	}
	rows := 150 + rng.Intn(100)
	sc := model.NewCol("s", model.KString, rows)
	ec := model.NewCol("e", model.KEnum, rows)
	ec.EnumKnown = true
	if rng.Intn(2) == 0 {
		ec.EnumVals = append([]string(nil), distinct...)
		rng.Shuffle(len(ec.EnumVals), func(i, j int) { ec.EnumVals[i], ec.EnumVals[j] = ec.EnumVals[j], ec.EnumVals[i] })
	}
	id := model.NewCol(model.IDCol, model.KInt, rows)
	for r := 0; r < rows; r++ {
		id.I[r] = r + 1
		if rng.Intn(12) == 0 {
			continue // null in both
		}
		v := distinct[rng.Intn(len(distinct))]
		sc.S[r] = model.StrP(v)
		ec.S[r] = model.StrP(v)
	}
	f := &model.Frame{Cols: []*model.Col{id, sc, ec}}
	root, err := model.MakeRootFrom(rng, f, 3, false)
	if err != nil {
		c.Count("root_build_failed", 1)
		return
	}
	if rng.Intn(4) == 0 {
		// upper-case both columns in place: the built-in enum ToUpper maps the value table, which may leave an enum
		// whose value table holds the same string more than once
		var up qframe.QFrame
		pv, _ := fw.Guard(func() {
			up = root.QF.Apply(qframe.Instruction{Fn: "ToUpper", DstCol: "e", SrcCol1: "e"},
				qframe.Instruction{Fn: func(x *string) *string {
					if x == nil {
						return nil
					}
					u := strings.ToUpper(*x)
					return &u
				}, DstCol: "s", SrcCol1: "s"})
		})
		if pv == nil && up.Err == nil {
			if sh2, e := model.ObserveGuard(up); e == nil && sh2.Col("e") != nil && sh2.Col("e").Kind == model.KEnum {
				root = &model.Root{Shadow: sh2, QF: up, Path: root.Path, Ops: append(root.Ops, "Apply(ToUpper e, upper s)"), Shape: root.Shape}
				c.Count("frames_with_uppercased_enum", 1)
				for i, d := range distinct {
					distinct[i] = strings.ToUpper(d)
				}
			}
		}
	}
	sh := root.Shadow
	var tried []string
	c.DescribeLazy(func() interface{} {
		d := root.Describe(12)
		d["patterns"] = tried
		return d
	})
	n := sh.Len()
	scol := sh.Col("s")
	for k := 0; k < 12; k++ {
		pat := c18Pattern(rng, distinct)
		for _, cmp := range []string{"like", "ilike"} {
			// reference
			var keep []int
			var refErr error
			nonNull := 0
			for r := 0; r < n; r++ {
				if scol.S[r] == nil {
					continue
				}
				nonNull++
				m, e := model.LikeRef(pat, *scol.S[r], cmp == "like")
				if e != nil {
					refErr = e
					break
				}
				if m {
					keep = append(keep, r)
				}
			}
			isRegex := regexp.QuoteMeta(pat) != pat
			class := "literal"
			if isRegex {
				class = "regex"
			}
			if refErr == nil && isRegex {
				// make sure the reference agrees that the expression compiles even when there are no non-null cells
				if _, e := model.LikeRef(pat, "", cmp == "like"); e != nil {
					refErr = e
				}
			}
			tried = append(tried, fmt.Sprintf("%s %q", cmp, pat))
			want := sh.Take(keep)
			for _, colName := range []string{"s", "e"} {
				c.Eval(1)
				c.Count("filters:"+class, 1)
				desc := fmt.Sprintf("Filter{%q %s %q}", colName, cmp, pat)
				var res qframe.QFrame
				if !c.GuardFail("filter", desc, func() {
					res = root.QF.Filter(qframe.Filter{Column: colName, Comparator: cmp, Arg: pat})
				}) {
					continue
				}
				if refErr != nil {
					c.Nontrivial("invalid", pat, cmp, colName)
					c.Count("invalid_patterns", 1)
					if res.Err == nil {
						c.Fail("accepts-invalid-regex", "%s: invalid regular expression (%v) accepted", desc, refErr)
					}
					continue
				}
				if res.Err != nil {
					c.Fail("err:"+class, "%s rejected: %v", desc, res.Err)
					continue
				}
				got, oerr := model.ObserveGuard(res)
				if oerr != nil {
					c.Fail("observe", "%s: %v", desc, oerr)
					continue
				}
				if len(keep) > 0 && len(keep) < nonNull {
					c.Nontrivial(pat, cmp, colName, idKey(sh.IDs()))
					c.Count("nontrivial_filters", 1)
				}
				if d := model.Diff(want, got); d != "" {
					// find a cell that is judged differently
					gotIDs := map[int]bool{}
					for _, v := range got.IDs() {
						gotIDs[v] = true
					}
					wantIDs := map[int]bool{}
					for _, v := range want.IDs() {
						wantIDs[v] = true
					}
					example := ""
					for r := 0; r < n; r++ {
						idv := sh.IDs()[r]
						if gotIDs[idv] != wantIDs[idv] {
							example = fmt.Sprintf("cell %s: matched=%v, rule says %v", scol.CellString(r), gotIDs[idv], wantIDs[idv])
							break
						}
					}
					c.Fail(fmt.Sprintf("mismatch:%s:%s:%s", cmp, class, colName), "%s: %s (%s)", desc, example, d)
				}
			}
		}
	}
}
