package props

import (
	"fmt"
	"math"
	"math/rand"
	"reflect"
	"strconv"
	"strings"

	"github.com/tobgu/qframe"
	"github.com/tobgu/qframe/config/eval"
	"github.com/tobgu/qframe/types"

	"qverif/fw"
	"qverif/model"
)

func init() {
	fw.Register(&fw.Property{
		ID:    "C07",
		Level: "exploration",
		Rule: "case = one derived frame (sometimes already containing columns named like the reserved temporaries const-temp-N / colcol-temp-N / unary-temp-N) x 5 expression trees (depth<=5, n-ary Expr up to 5 arguments, constants on either side of non-commutative operators, " +
			"default-context and SetFunc-registered functions, dst = new name / existing column / a source column / a reserved temp name) evaluated by Eval and by a typed reference evaluator over the observed rows; " +
			"plus known-invalid expressions (unknown function or column, operand type mismatch, malformed lists, Expr without arguments) that must yield Err; evaluation = one Eval call; non-trivial = tree with >=2 function nodes; distinct by (expression text, dst, frame ids)",
		Assumptions: []string{
			"integer division is only generated with a non-zero constant divisor (division by zero is a documented panic)",
			"functions are looked up by the type of the first operand; string and enum operands count as different types for binary functions (mixing them is a type mismatch)",
		},
		Stages:   stages(15000, 1400000, 500, 0),
		RunCase:  runC07,
		Conclude: shapeConclude(40),
	})
}

type enode struct {
	kind   string // const | col | fn
	name   string // function name or column name
	args   []*enode
	ck     model.Kind // constant kind
	cI     int
	cF     float64
	cB     bool
	cS     *string
	viaVal bool // wrap constant/column in qframe.Val
}

func (e *enode) String() string {
	switch e.kind {
	case "const":
		switch e.ck {
		case model.KInt:
			return strconv.Itoa(e.cI)
		case model.KFloat:
			return fmt.Sprintf("float64(%v)", e.cF)
		case model.KBool:
			return strconv.FormatBool(e.cB)
		default:
			if e.cS == nil {
				return "nil"
			}
			return strconv.Quote(*e.cS)
		}
	case "col":
		return "col(" + strconv.Quote(e.name) + ")"
	}
	parts := make([]string, len(e.args))
	for i, a := range e.args {
		parts[i] = a.String()
	}
	return fmt.Sprintf("Expr(%q, %s)", e.name, strings.Join(parts, ", "))
}

func (e *enode) fnCount() int {
	if e.kind != "fn" {
		return 0
	}
	n := 1
	if len(e.args) > 2 {
		n = len(e.args) - 1
	}
	for _, a := range e.args {
		n += a.fnCount()
	}
	return n
}

// arg converts a node into what is passed to qframe.Expr.
func (e *enode) arg() interface{} {
	switch e.kind {
	case "const":
		switch e.ck {
		case model.KInt:
			return e.cI
		case model.KFloat:
			return e.cF
		case model.KBool:
			return e.cB
		default:
			if e.cS == nil {
				return nil
			}
			return *e.cS
		}
	case "col":
		return types.ColumnName(e.name)
	}
	return e.real()
}

func (e *enode) real() qframe.Expression {
	if e.kind != "fn" {
		return qframe.Val(e.arg())
	}
	args := make([]interface{}, len(e.args))
	for i, a := range e.args {
		args[i] = a.arg()
		if a.viaVal && a.kind != "fn" {
			args[i] = qframe.Val(args[i])
		}
	}
	// the operand slice belongs to the caller: building the expression must not write to it
	snapshot := append([]interface{}(nil), args...)
	expr := qframe.Expr(e.name, args...)
	if !reflect.DeepEqual(snapshot, args) {
		c07ArgMutation = fmt.Sprintf("Expr(%q, operands...) with %d operands overwrote entries of the caller's operand slice", e.name, len(args))
	}
	_ = expr
	// build it a second time from the very same slice, as a caller reusing its operand list would
	return qframe.Expr(e.name, args...)
}

// c07ArgMutation is set when building an expression modified the slice handed to qframe.Expr.
var c07ArgMutation string

// user functions registered in the context
func userI2(x, y int) int         { return x*3 - y }
func userI1(x int) int            { return x*x - 1 }
func userF2(x, y float64) float64 { return x - 2*y }
func userF1b(x float64) bool      { return x > 0.5 }
func userB2(x, y bool) bool       { return x && !y }
func userS2(x, y *string) *string {
	if x == nil || y == nil {
		return nil
	}
	r := *x + "|" + *y
	return &r
}
func userS1i(x *string) int {
	if x == nil {
		return -1
	}
	return len(*x) * 2
}

func newCtx() *eval.Context {
	ctx := eval.NewDefaultCtx()
	for name, fn := range map[string]interface{}{"ui2": userI2, "ui1": userI1, "uf2": userF2, "ufb": userF1b, "ub2": userB2, "us2": userS2, "usi": userS1i} {
		if err := ctx.SetFunc(name, fn); err != nil {
			panic(err)
		}
	}
	return ctx
}

type fnSig struct {
	name string
	in   model.Kind // KString stands for string and enum operands
	out  model.Kind
}

var unaryFns = []fnSig{
	{"abs", model.KFloat, model.KFloat}, {"str", model.KFloat, model.KString}, {"int", model.KFloat, model.KInt}, {"ufb", model.KFloat, model.KBool},
	{"abs", model.KInt, model.KInt}, {"str", model.KInt, model.KString}, {"bool", model.KInt, model.KBool}, {"float", model.KInt, model.KFloat}, {"ui1", model.KInt, model.KInt},
	{"!", model.KBool, model.KBool}, {"str", model.KBool, model.KString}, {"int", model.KBool, model.KInt},
	{"upper", model.KString, model.KString}, {"lower", model.KString, model.KString}, {"str", model.KString, model.KString}, {"len", model.KString, model.KInt}, {"usi", model.KString, model.KInt},
}

var binaryFns = []fnSig{
	{"+", model.KFloat, model.KFloat}, {"-", model.KFloat, model.KFloat}, {"*", model.KFloat, model.KFloat}, {"/", model.KFloat, model.KFloat}, {"uf2", model.KFloat, model.KFloat},
	{"+", model.KInt, model.KInt}, {"-", model.KInt, model.KInt}, {"*", model.KInt, model.KInt}, {"/", model.KInt, model.KInt}, {"ui2", model.KInt, model.KInt},
	{"&", model.KBool, model.KBool}, {"|", model.KBool, model.KBool}, {"!=", model.KBool, model.KBool}, {"nand", model.KBool, model.KBool}, {"ub2", model.KBool, model.KBool},
	{"+", model.KString, model.KString}, {"us2", model.KString, model.KString},
}

func strOrEnum(k model.Kind) model.Kind {
	if k == model.KEnum {
		return model.KString
	}
	return k
}

func apply1ref(name string, in *model.Col, out *model.Col, r int) {
	switch strOrEnum(in.Kind) {
	case model.KFloat:
		x := in.F[r]
		switch name {
		case "abs":
			out.F[r] = math.Abs(x)
		case "str":
			out.S[r] = model.StrP(fmt.Sprintf("%f", x))
		case "int":
			out.I[r] = int(x)
		case "ufb":
			out.B[r] = userF1b(x)
		}
	case model.KInt:
		x := in.I[r]
		switch name {
		case "abs":
			if x < 0 {
				x = -x
			}
			out.I[r] = x
		case "str":
			out.S[r] = model.StrP(strconv.Itoa(x))
		case "bool":
			out.B[r] = x != 0
		case "float":
			out.F[r] = float64(x)
		case "ui1":
			out.I[r] = userI1(x)
		}
	case model.KBool:
		x := in.B[r]
		switch name {
		case "!":
			out.B[r] = !x
		case "str":
			out.S[r] = model.StrP(strconv.FormatBool(x))
		case "int":
			if x {
				out.I[r] = 1
			} else {
				out.I[r] = 0
			}
		}
	default:
		x := in.S[r]
		switch name {
		case "upper":
			if x != nil {
				out.S[r] = model.StrP(strings.ToUpper(*x))
			}
		case "lower":
			if x != nil {
				out.S[r] = model.StrP(strings.ToLower(*x))
			}
		case "str":
			out.S[r] = x
		case "len":
			if x != nil {
				out.I[r] = len(*x)
			}
		case "usi":
			out.I[r] = userS1i(x)
		}
	}
}

func apply2ref(name string, a, b, out *model.Col, r int) {
	switch strOrEnum(a.Kind) {
	case model.KFloat:
		x, y := a.F[r], b.F[r]
		switch name {
		case "+":
			out.F[r] = x + y
		case "-":
			out.F[r] = x - y
		case "*":
			out.F[r] = x * y
		case "/":
			out.F[r] = x / y
		case "uf2":
			out.F[r] = userF2(x, y)
		}
	case model.KInt:
		x, y := a.I[r], b.I[r]
		switch name {
		case "+":
			out.I[r] = x + y
		case "-":
			out.I[r] = x - y
		case "*":
			out.I[r] = x * y
		case "/":
			out.I[r] = x / y
		case "ui2":
			out.I[r] = userI2(x, y)
		}
	case model.KBool:
		x, y := a.B[r], b.B[r]
		switch name {
		case "&":
			out.B[r] = x && y
		case "|":
			out.B[r] = x || y
		case "!=":
			out.B[r] = x != y
		case "nand":
			out.B[r] = !(x && y)
		case "ub2":
			out.B[r] = userB2(x, y)
		}
	default:
		x, y := a.S[r], b.S[r]
		switch name {
		case "+":
			switch {
			case x == nil:
				out.S[r] = y
			case y == nil:
				out.S[r] = x
			default:
				out.S[r] = model.StrP(*x + *y)
			}
		case "us2":
			out.S[r] = userS2(x, y)
		}
	}
}

// evalRef evaluates the tree over the shadow frame (column at a time, written order, left fold).
func (e *enode) evalRef(sh *model.Frame) *model.Col {
	n := sh.Len()
	switch e.kind {
	case "const":
		c := model.NewCol("", e.ck, n)
		for r := 0; r < n; r++ {
			switch e.ck {
			case model.KInt:
				c.I[r] = e.cI
			case model.KFloat:
				c.F[r] = e.cF
			case model.KBool:
				c.B[r] = e.cB
			default:
				c.S[r] = e.cS
			}
		}
		return c
	case "col":
		return sh.Col(e.name)
	}
	vals := make([]*model.Col, len(e.args))
	for i, a := range e.args {
		vals[i] = a.evalRef(sh)
	}
	if len(vals) == 1 {
		out := model.NewCol("", e.outKind(vals[0].Kind), n)
		for r := 0; r < n; r++ {
			apply1ref(e.name, vals[0], out, r)
		}
		return out
	}
	acc := vals[0]
	for i := 1; i < len(vals); i++ {
		out := model.NewCol("", strOrEnum(acc.Kind), n)
		for r := 0; r < n; r++ {
			apply2ref(e.name, acc, vals[i], out, r)
		}
		acc = out
	}
	return acc
}

func (e *enode) outKind(in model.Kind) model.Kind {
	for _, f := range unaryFns {
		if f.name == e.name && f.in == strOrEnum(in) {
			return f.out
		}
	}
	return in
}

// genExpr generates a valid expression producing a value whose operand class is `want`
// (KString = string column/expression, KEnum = an enum column reference).
type exprGen struct {
	rng *rand.Rand
	sh  *model.Frame
}

func (g *exprGen) constant(k model.Kind) *enode {
	rng := g.rng
	e := &enode{kind: "const", ck: k, viaVal: rng.Intn(4) == 0}
	switch k {
	case model.KInt:
		e.cI = []int{0, 1, 2, 3, -4, 10, 7}[rng.Intn(7)]
	case model.KFloat:
		e.cF = []float64{0, 1, 2.5, -0.5, 10, 0.125}[rng.Intn(6)]
	case model.KBool:
		e.cB = rng.Intn(2) == 0
	default:
		switch rng.Intn(5) {
		case 0:
			e.cS = nil
		case 1:
			e.cS = model.StrP("")
		default:
			e.cS = model.StrP([]string{"x", "Yz", "é", "-"}[rng.Intn(4)])
		}
	}
	return e
}

func (g *exprGen) column(k model.Kind) *enode {
	var cands []string
	for _, c := range g.sh.Cols {
		if c.Kind == k && c.Name != model.IDCol {
			cands = append(cands, c.Name)
		}
	}
	if len(cands) == 0 {
		return nil
	}
	return &enode{kind: "col", name: cands[g.rng.Intn(len(cands))], viaVal: g.rng.Intn(5) == 0}
}

// gen returns a node of exact kind k (KEnum only as plain column reference).
func (g *exprGen) gen(k model.Kind, depth int) *enode {
	rng := g.rng
	if k == model.KEnum {
		return g.column(model.KEnum)
	}
	if depth <= 0 || rng.Intn(4) == 0 {
		if rng.Intn(3) > 0 {
			if c := g.column(k); c != nil {
				return c
			}
		}
		return g.constant(k)
	}
	for tries := 0; tries < 20; tries++ {
		if rng.Intn(3) == 0 {
			// unary producing k
			var cands []fnSig
			for _, f := range unaryFns {
				if f.out == k {
					cands = append(cands, f)
				}
			}
			f := cands[rng.Intn(len(cands))]
			var a *enode
			if f.in == model.KString && rng.Intn(3) == 0 {
				a = g.column(model.KEnum)
			}
			if a == nil {
				a = g.gen(f.in, depth-1)
			}
			if a == nil || a.kind == "const" {
				// a function of only a constant is decoded as something else; need a column or expression
				continue
			}
			return &enode{kind: "fn", name: f.name, args: []*enode{a}}
		}
		var cands []fnSig
		for _, f := range binaryFns {
			if f.out == k {
				cands = append(cands, f)
			}
		}
		if len(cands) == 0 {
			continue
		}
		f := cands[rng.Intn(len(cands))]
		nargs := 2
		if rng.Intn(4) == 0 {
			nargs = 3 + rng.Intn(3)
		}
		var args []*enode
		ok := true
		if f.in == model.KString && rng.Intn(6) == 0 {
			// enum + enum (same type on both sides), only as a two argument expression
			a, b := g.column(model.KEnum), g.column(model.KEnum)
			if a != nil && b != nil {
				return &enode{kind: "fn", name: f.name, args: []*enode{a, b}}
			}
		}
		allConst := true
		for i := 0; i < nargs; i++ {
			a := g.gen(f.in, depth-1)
			if a == nil {
				ok = false
				break
			}
			if f.name == "/" && f.in == model.KInt && i > 0 {
				a = g.constant(model.KInt)
				if a.cI == 0 {
					a.cI = 3
				}
			}
			if a.kind != "const" {
				allConst = false
			}
			args = append(args, a)
		}
		if !ok {
			continue
		}
		if allConst || (args[0].kind == "const" && args[1].kind == "const") {
			// (const, const) pairs are not a supported expression form: make the first operand a column or sub-expression
			a := g.column(f.in)
			if a == nil {
				continue
			}
			args[0] = a
		}
		return &enode{kind: "fn", name: f.name, args: args}
	}
	if c := g.column(k); c != nil {
		return c
	}
	return g.constant(k)
}

var tempNames = []string{"const-temp-0", "const-temp-1", "colcol-temp-0", "colcol-temp-1", "unary-temp-0"}

type heldEval struct {
	res  qframe.QFrame
	want *model.Frame
	desc string
}

func runC07(c *fw.Case) {
	var held []heldEval
	rng := c.Rng
	maxRows := 120
	if rng.Intn(30) == 0 {
		maxRows = 2000
	}
	o := model.GenOpts{Rows: model.PickRows(rng, maxRows), MinCols: 2, MaxCols: 6, ID: true, NoCR: true, UTF8: true, SmallInts: true, ExactFloat: rng.Intn(2) == 0}
	if rng.Intn(3) == 0 {
		// frames that already hold columns with the names of the temporaries
		o.Names = append(append([]string{}, tempNames...), "a", "b", "c")
	}
	root, err := model.MakeRoot(rng, o, 4, true)
	if err != nil {
		c.Count("root_build_failed", 1)
		return
	}
	sh := root.Shadow
	c.Count("shape:"+root.Shape, 1)
	var exprs []string
	c.DescribeLazy(func() interface{} {
		d := root.Describe(20)
		d["evals"] = exprs
		return d
	})
	g := &exprGen{rng: rng, sh: sh}
	ctx := newCtx()
	names := sh.Names()
	inputTemp := map[string]bool{}
	for _, nm := range names {
		if strings.Contains(nm, "-temp-") {
			inputTemp[nm] = true
		}
	}

	for k := 0; k < 5; k++ {
		kinds := []model.Kind{model.KInt, model.KFloat, model.KBool, model.KString}
		e := g.gen(kinds[rng.Intn(4)], 1+rng.Intn(5))
		if e == nil {
			continue
		}
		if e.kind == "const" && rng.Intn(2) == 0 {
			continue
		}
		var dst string
		switch rng.Intn(6) {
		case 0:
			dst = names[rng.Intn(len(names))]
		case 1:
			dst = tempNames[rng.Intn(len(tempNames))]
		default:
			dst = []string{"res", "out", "zz"}[rng.Intn(3)]
		}
		if dst == model.IDCol {
			dst = "res"
		}
		desc := fmt.Sprintf("Eval(%q, %s)", dst, e.String())
		exprs = append(exprs, desc)
		val := e.evalRef(sh).Clone()
		val.Name = dst
		if val.Kind == model.KEnum && e.kind != "col" {
			val.Kind = model.KString
		}
		want := &model.Frame{Cols: append([]*model.Col(nil), sh.Cols...)}
		repl := false
		for i, col := range want.Cols {
			if col.Name == dst {
				want.Cols[i] = val
				repl = true
			}
		}
		if !repl {
			want.Cols = append(want.Cols, val)
		}
		c.Eval(1)
		var res qframe.QFrame
		useCtx := rng.Intn(3) > 0 || usesUserFn(e)
		c07ArgMutation = ""
		if !c.GuardFail("eval", desc, func() {
			if useCtx {
				res = root.QF.Eval(dst, e.real(), eval.EvalContext(ctx))
			} else {
				res = root.QF.Eval(dst, e.real())
			}
		}) {
			continue
		}
		if c07ArgMutation != "" {
			c.Fail("operand-slice-modified", "%s: %s", desc, c07ArgMutation)
			continue
		}
		if res.Err != nil {
			c.Fail("err:"+c07Shape(e), "%s rejected: %v", desc, res.Err)
			continue
		}
		got, oerr := model.ObserveGuard(res)
		if oerr != nil {
			c.Fail("observe", "%s: %v", desc, oerr)
			continue
		}
		if e.fnCount() >= 2 {
			c.Nontrivial(desc, idKey(sh.IDs()))
			c.Count("nontrivial_expressions", 1)
		}
		for _, col := range got.Cols {
			if strings.Contains(col.Name, "-temp-") && !inputTemp[col.Name] && col.Name != dst {
				c.Fail("temp-survives", "%s: temporary column %q survives in the result (columns %q)", desc, col.Name, got.Names())
			}
		}
		if d := model.Diff(want, got); d != "" {
			key := "differs:" + c07Shape(e)
			if inputTemp[dst] || strings.Contains(dst, "-temp-") {
				key = "differs:dst-is-reserved-temp-name"
			}
			c.Fail(key, "%s on frame (index %s): %s", desc, root.Shape, d)
		} else if len(held) < 8 {
			held = append(held, heldEval{res, want, desc})
		}
	}
	// every result is observed a second time after all later Evals on the same frame
	for _, h := range held {
		if c.Failed() {
			break
		}
		c.Eval(1)
		c.Count("delayed_reobservations", 1)
		got, oerr := model.ObserveGuard(h.res)
		if oerr != nil {
			c.Fail("observe:delayed", "%s: second observation after later Evals on the same frame: %v", h.desc, oerr)
		} else if d := model.Diff(h.want, got); d != "" {
			c.Fail("differs:delayed", "result of %s was correct when returned but differs after later Evals on the same frame: %s", h.desc, d)
		}
	}

	// ---- contexts are independent: a function registered in (or overriding a built-in of) one context
	// must be invisible to the default context and to other contexts
	if ic := g.column(model.KInt); ic != nil {
		other := eval.NewDefaultCtx()
		_ = other.SetFunc("abs", func(x int) int { return x + 1000 })
		_ = other.SetFunc("onlyhere", func(x int) int { return -x })
		src := sh.Col(ic.name)
		n := sh.Len()
		wantAbs, wantOther := model.NewCol("res", model.KInt, n), model.NewCol("res", model.KInt, n)
		for r, v := range src.I {
			wantOther.I[r] = v + 1000
			if v < 0 {
				v = -v
			}
			wantAbs.I[r] = v
		}
		type run struct {
			name string
			cfg  []eval.ConfigFunc
			want *model.Col
		}
		// one Expression value serves all three evaluations (an expression built once and evaluated under several contexts)
		absExpr := qframe.Expr("abs", types.ColumnName(ic.name))
		runs := []run{{"overriding context", []eval.ConfigFunc{eval.EvalContext(other)}, wantOther}, {"default context", nil, wantAbs}, {"case context", []eval.ConfigFunc{eval.EvalContext(ctx)}, wantAbs}}
		rng.Shuffle(len(runs), func(i, j int) { runs[i], runs[j] = runs[j], runs[i] })
		for _, rn := range runs {
			c.Eval(1)
			desc := fmt.Sprintf("Eval(\"res\", Expr(\"abs\", col(%q))) with the %s (same Expression value as the other contexts)", ic.name, rn.name)
			exprs = append(exprs, desc)
			var res qframe.QFrame
			if !c.GuardFail("eval-ctx", desc, func() { res = root.QF.Eval("res", absExpr, rn.cfg...) }) {
				continue
			}
			if res.Err != nil {
				c.Fail("err:context", "%s rejected: %v", desc, res.Err)
				continue
			}
			if got, oerr := model.ObserveGuard(res); oerr == nil {
				if gc := got.Col("res"); gc == nil || gc.Kind != model.KInt || model.Diff(&model.Frame{Cols: []*model.Col{rn.want}}, &model.Frame{Cols: []*model.Col{gc}}) != "" {
					c.Fail("context-leak:value", "%s does not compute the function registered in that context (another context's \"abs\" leaked?)", desc)
				}
			}
		}
		{
			// the option holds the context, not a picture of it: a function registered after the option was created is found
			late := eval.NewDefaultCtx()
			opt := eval.EvalContext(late)
			_ = late.SetFunc("registeredlate", func(x int) int { return x + 7 })
			_ = late.SetFunc("abs", func(x int) int { return x - 1 })
			c.Eval(1)
			desc := fmt.Sprintf("Eval(\"res\", abs(registeredlate(col(%q)))) with an EvalContext option created before SetFunc", ic.name)
			exprs = append(exprs, desc)
			var res qframe.QFrame
			if c.GuardFail("eval-ctx", desc, func() {
				res = root.QF.Eval("res", qframe.Expr("abs", qframe.Expr("registeredlate", types.ColumnName(ic.name))), opt)
			}) {
				if res.Err != nil {
					c.Fail("context-option-snapshot", "%s rejected: %v", desc, res.Err)
				} else if got, oerr := model.ObserveGuard(res); oerr == nil {
					gc := got.Col("res")
					ok := gc != nil && gc.Kind == model.KInt
					for r := 0; ok && r < n; r++ {
						ok = gc.I[r] == src.I[r]+7-1
					}
					if !ok {
						c.Fail("context-option-snapshot", "%s does not compute the functions registered in the context the option refers to", desc)
					}
				}
			}
		}
		{
			// one name may serve a one-argument and a two-argument function of the same operand type
			dual := eval.NewDefaultCtx()
			_ = dual.SetFunc("dual", func(x int) int { return x + 1 })
			_ = dual.SetFunc("dual", func(x, y int) int { return x*10 + y })
			_ = dual.SetFunc("-", func(x int) int { return -x }) // a unary minus next to the built-in binary one
			_ = dual.SetFunc("abs", func(x, y int) int { return x - y })
			c.Eval(1)
			desc := fmt.Sprintf("Eval(\"res\", dual(dual(c), -(c)) - abs(abs(c), c)) with c = col(%q) in a context holding one- and two-argument functions of the same name", ic.name)
			exprs = append(exprs, desc)
			cn := types.ColumnName(ic.name)
			var res qframe.QFrame
			if c.GuardFail("eval-ctx", desc, func() {
				res = root.QF.Eval("res", qframe.Expr("-", qframe.Expr("dual", qframe.Expr("dual", cn), qframe.Expr("-", cn)), qframe.Expr("abs", qframe.Expr("abs", cn), cn)), eval.EvalContext(dual))
			}) {
				if res.Err != nil {
					c.Fail("context-arity", "%s rejected: %v", desc, res.Err)
				} else if got, oerr := model.ObserveGuard(res); oerr == nil {
					gc := got.Col("res")
					ok := gc != nil && gc.Kind == model.KInt
					for r := 0; ok && r < n; r++ {
						v := src.I[r]
						a := v
						if a < 0 {
							a = -a
						}
						ok = gc.I[r] == ((v+1)*10+(-v))-(a-v)
					}
					if !ok {
						c.Fail("context-arity", "%s computes other functions than the ones registered for each number of arguments", desc)
					}
				}
			}
		}
		for _, nm := range []string{"onlyhere", "ui1"} {
			c.Eval(1)
			c.Nontrivial("ctx-unknown", nm, idKey(sh.IDs()))
			desc := fmt.Sprintf("Eval(\"res\", Expr(%q, col(%q))) with the default context (function only registered in another context)", nm, ic.name)
			exprs = append(exprs, desc)
			var res qframe.QFrame
			if c.GuardFail("eval-ctx", desc, func() { res = root.QF.Eval("res", qframe.Expr(nm, types.ColumnName(ic.name))) }) && res.Err == nil {
				c.Fail("context-leak:unknown-function-accepted", "%s returned no Err", desc)
			}
		}
	}

	// ---- known-invalid expressions must give Err
	type bad struct {
		name string
		expr func() qframe.Expression
	}
	icol, fcol, scol, ecol, bcol := g.column(model.KInt), g.column(model.KFloat), g.column(model.KString), g.column(model.KEnum), g.column(model.KBool)
	var bads []bad
	bads = append(bads,
		bad{"Expr with no arguments", func() qframe.Expression { return qframe.Expr("+") }},
		bad{"unknown column", func() qframe.Expression { return qframe.Expr("abs", types.ColumnName("no-such-col")) }},
		bad{"unknown column as value", func() qframe.Expression { return qframe.Val(types.ColumnName("no-such-col")) }},
		bad{"malformed list (one element)", func() qframe.Expression { return qframe.Val([]interface{}{"+"}) }},
		bad{"malformed list (four elements)", func() qframe.Expression { return qframe.Val([]interface{}{"+", 1, 2, 3}) }},
		bad{"unsupported value", func() qframe.Expression { return qframe.Val(struct{}{}) }},
		bad{"operation is not a string", func() qframe.Expression { return qframe.Val([]interface{}{1, 2, 3}) }},
	)
	if icol != nil {
		n := icol.name
		bads = append(bads,
			bad{"unknown function", func() qframe.Expression { return qframe.Expr("nosuchfn", types.ColumnName(n)) }},
			bad{"unknown binary function", func() qframe.Expression { return qframe.Expr("nosuchfn", types.ColumnName(n), 1) }},
			bad{"int column + float constant", func() qframe.Expression { return qframe.Expr("+", types.ColumnName(n), 1.5) }},
			bad{"int column + string constant", func() qframe.Expression { return qframe.Expr("+", types.ColumnName(n), "x") }},
			bad{"nested unknown function", func() qframe.Expression {
				return qframe.Expr("+", qframe.Expr("nosuchfn", types.ColumnName(n)), 1)
			}},
		)
		if fcol != nil {
			m := fcol.name
			bads = append(bads, bad{"int column + float column", func() qframe.Expression { return qframe.Expr("+", types.ColumnName(n), types.ColumnName(m)) }})
		}
		if bcol != nil {
			m := bcol.name
			bads = append(bads, bad{"bool column & int column", func() qframe.Expression { return qframe.Expr("&", types.ColumnName(m), types.ColumnName(n)) }})
		}
	}
	if scol != nil && ecol != nil {
		s, e := scol.name, ecol.name
		bads = append(bads, bad{"string column + enum column", func() qframe.Expression { return qframe.Expr("+", types.ColumnName(s), types.ColumnName(e)) }},
			bad{"enum column + string column", func() qframe.Expression { return qframe.Expr("+", types.ColumnName(e), types.ColumnName(s)) }})
	}
	if ecol != nil {
		e := ecol.name
		bads = append(bads, bad{"enum column + string constant", func() qframe.Expression { return qframe.Expr("+", types.ColumnName(e), "x") }})
	}
	for _, b := range bads {
		if rng.Intn(3) > 0 {
			continue
		}
		// destination: a new name, the (unknown) name the expression refers to, or an existing column
		dst := "res"
		switch rng.Intn(4) {
		case 0:
			dst = "no-such-col"
		case 1:
			dst = sh.Cols[rng.Intn(len(sh.Cols))].Name
		}
		desc := fmt.Sprintf("Eval(%q, <%s>)", dst, b.name)
		exprs = append(exprs, desc)
		c.Eval(1)
		c.Nontrivial("invalid", b.name, idKey(sh.IDs()))
		var res qframe.QFrame
		if !c.GuardFail("eval-invalid:"+b.name, desc, func() { res = root.QF.Eval(dst, b.expr(), eval.EvalContext(ctx)) }) {
			continue
		}
		c.Count("invalid_expressions", 1)
		if res.Err == nil {
			c.Fail("accepts-invalid:"+b.name, "%s returned no Err (columns %q)", desc, res.ColumnNames())
		} else if res.Len() != -1 {
			c.Fail("errlen", "%s has Err but Len()=%d", desc, res.Len())
		}
		// a failed Eval leaves the frame it was applied to as it was
		c.Eval(1)
		if got, oerr := model.ObserveGuard(root.QF); oerr != nil {
			c.Fail("receiver-after-failed-eval", "after %s the receiver cannot be observed: %v", desc, oerr)
			return
		} else if d := model.Diff(sh, got); d != "" {
			c.Fail("receiver-after-failed-eval", "after %s the receiver changed: %s", desc, d)
			return
		}
	}
}

func usesUserFn(e *enode) bool {
	if e.kind != "fn" {
		return false
	}
	if strings.HasPrefix(e.name, "u") && e.name != "upper" {
		return true
	}
	for _, a := range e.args {
		if usesUserFn(a) {
			return true
		}
	}
	return false
}

// c07Shape is a coarse shape key: top-level function and operand forms.
func c07Shape(e *enode) string {
	if e.kind != "fn" {
		return e.kind
	}
	parts := []string{}
	for i, a := range e.args {
		if i > 2 {
			parts = append(parts, "…")
			break
		}
		parts = append(parts, a.kind)
	}
	return fmt.Sprintf("%s(%s)", e.name, strings.Join(parts, ","))
}
