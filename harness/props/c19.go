package props

import (
	"database/sql/driver"
	"fmt"
	"math"
	"regexp"
	"strings"

	"github.com/tobgu/qframe"
	qsql "github.com/tobgu/qframe/config/sql"

	"qverif/fw"
	"qverif/memsql"
	"qverif/model"
)

func init() {
	fw.Register(&fw.Property{
		ID:    "C19",
		Level: "exploration",
		Rule: "case = one derived frame with >=1 row (string columns not entirely null) written by ToSQL under a random dialect (no escape, \", `, arbitrary rune; ? or $n placeholders; table and column names with spaces and % signs) into a recording in-memory database/sql driver: " +
			"the event log must hold exactly one INSERT per row in frame order with the exact statement text and the row's values as arguments (null strings as NULL); the stored table read back by ReadSQL must reproduce the frame (enums as strings); " +
			"plus independently generated result sets (leading NULL runs in text/float columns, []byte text, Int64ToBool / StringToFloat coercions, Precision) read by ReadSQL and compared with the denoted frame; " +
			"evaluation = one ToSQL event log, one round trip or one ReadSQL result; non-trivial = frame with non-identity index and a null, or result set with a leading NULL; distinct by (statements+args) / result set",
		Assumptions: []string{
			"column and table names contain no escape character and no comma (identifier quoting rules of real databases are outside the property)",
			"every result set column holds at least one non-NULL value and result sets have at least one row",
			"Precision rounds to float64(int(x*10^p + copysign(0.5,x)))/10^p as documented by the implementation; values are of moderate magnitude",
		},
		Stages:   stages(15000, 6000000, 0, 0),
		RunCase:  runC19,
		Conclude: nil,
	})
}

func runC19(c *fw.Case) {
	if c.No%2 == 0 {
		c19Write(c)
	} else {
		c19Read(c)
	}
}

func c19Write(c *fw.Case) {
	rng := c.Rng
	rows := 1 + rng.Intn(40)
	o := model.GenOpts{Rows: rows, MinCols: 1, MaxCols: 5, NoCR: false, ID: rng.Intn(2) == 0, Names: []string{"a", "b", "c", "COL1", "x y", "é", "n1", "Sum", "growth%", "%d", "a%sb", "100%%", "%!d(MISSING)"}, IDName: "rowid"}
	if c.No%40 == 12 {
		// long frames: more rows than a writer would put into one block or batch, not a multiple of the usual sizes
		o.Rows = []int{257, 1000, 1025, 1500, 2049, 3000}[rng.Intn(6)]
		o.MinCols, o.MaxCols = 1, 3
		o.Kinds = []model.Kind{model.KInt, model.KBool, model.KFloat}
		o.NoNull, o.SmallInts = true, true
	}
	if c.No%16 == 6 {
		// wide frames: placeholder numbers with two digits
		o.MinCols, o.MaxCols = 10, 14
		o.Names = []string{"a", "b", "c", "d", "e", "f", "g", "h", "i", "j", "k", "l", "m", "n", "o"}
		o.Rows = 1 + rng.Intn(5)
	}
	f := model.GenFrame(rng, o)
	root, err := model.MakeRootFrom(rng, f, 3, false)
	if err != nil || len(root.Shadow.Cols) == 0 || root.Shadow.Len() == 0 {
		c.Count("root_build_failed_or_empty", 1)
		return
	}
	sh := root.Shadow
	hasNull := false
	for _, col := range sh.Cols {
		if col.Kind == model.KString || col.Kind == model.KEnum {
			all := true
			for _, s := range col.S {
				if s != nil {
					all = false
				} else {
					hasNull = true
				}
			}
			if all {
				c.Count("skipped_all_null_string_column", 1)
				return
			}
		}
	}
	c.Count("shape:"+root.Shape, 1)
	// dialect
	var esc rune
	switch rng.Intn(5) {
	case 1:
		esc = '"'
	case 2:
		esc = '`'
	case 3:
		esc = []rune{'\'', '|', '¤', '«'}[rng.Intn(4)]
	}
	incr := rng.Intn(2) == 0
	table := []string{"t", "test", "my table", "Tab_1", "schema.tab", "t%d", "50%", "%v%s"}[rng.Intn(8)]
	var fns []qsql.ConfigFunc
	fns = append(fns, qsql.Table(table))
	preset := ""
	switch {
	case esc == '"' && incr && rng.Intn(2) == 0:
		fns = append(fns, qsql.Postgres())
		preset = "Postgres()"
	case esc == '"' && !incr && rng.Intn(2) == 0:
		fns = append(fns, qsql.SQLite())
		preset = "SQLite()"
	case esc == '`' && !incr && rng.Intn(2) == 0:
		fns = append(fns, qsql.MySQL())
		preset = "MySQL()"
	case esc == '"' && incr && rng.Intn(2) == 0:
		// numbered placeholders switched on next to a preset that only sets the escape character, in either order
		if rng.Intn(2) == 0 {
			fns = append(fns, qsql.Incrementing(), qsql.SQLite())
			preset = "Incrementing() SQLite()"
		} else {
			fns = append(fns, qsql.SQLite(), qsql.Incrementing())
			preset = "SQLite() Incrementing()"
		}
	case esc == '`' && incr && rng.Intn(2) == 0:
		if rng.Intn(2) == 0 {
			fns = append(fns, qsql.Incrementing(), qsql.MySQL())
			preset = "Incrementing() MySQL()"
		} else {
			fns = append(fns, qsql.Postgres(), qsql.MySQL())
			preset = "Postgres() MySQL()"
		}
	default:
		if esc != 0 {
			fns = append(fns, qsql.EscapeChar(esc))
		}
		if incr {
			fns = append(fns, qsql.Incrementing())
		}
	}
	dial := fmt.Sprintf("table=%q escape=%q incrementing=%v %s", table, string(esc), incr, preset)
	var logText []string
	c.DescribeLazy(func() interface{} {
		d := root.Describe(12)
		d["dialect"] = dial
		d["recorded_statements"] = logText
		return d
	})
	wrap := func(s string) string {
		if esc == 0 {
			return s
		}
		return string(esc) + s + string(esc)
	}
	names := sh.Names()
	var colList, ph []string
	for i, nme := range names {
		colList = append(colList, wrap(nme))
		if incr {
			ph = append(ph, fmt.Sprintf("$%d", i+1))
		} else {
			ph = append(ph, "?")
		}
	}
	wantStmt := fmt.Sprintf("INSERT INTO %s (%s) VALUES (%s);", wrap(table), strings.Join(colList, ","), strings.Join(ph, ","))

	db := memsql.New()
	sdb := db.Open()
	defer sdb.Close()
	tx, err := sdb.Begin()
	if err != nil {
		return
	}
	c.Eval(1)
	var werr error
	if !c.GuardFail("tosql", "ToSQL", func() { werr = root.QF.ToSQL(tx, fns...) }) {
		return
	}
	if werr != nil {
		c.Fail("tosql-err", "ToSQL(%s) failed: %v", dial, werr)
		return
	}
	var execs []memsql.Event
	for _, e := range db.Log {
		if e.Kind == "exec" {
			execs = append(execs, e)
			if len(logText) < 4 {
				logText = append(logText, fmt.Sprintf("%s %v", e.Query, e.Args))
			}
		}
	}
	if root.Shape != "identity" && hasNull {
		c.Nontrivial(fmt.Sprint(execs))
		c.Count("nontrivial_writes", 1)
	}
	if len(execs) != sh.Len() {
		c.Fail("statement-count", "ToSQL executed %d statements for %d rows", len(execs), sh.Len())
		return
	}
	for r, e := range execs {
		if e.Query != wantStmt && !sameInsert(e.Query, wrap(table), colList, ph) {
			c.Fail("statement-text", "row %d: statement %q, want %q (%s)", r, e.Query, wantStmt, dial)
			return
		}
		if len(e.Args) != len(sh.Cols) {
			c.Fail("arg-count", "row %d: %d arguments for %d columns", r, len(e.Args), len(sh.Cols))
			return
		}
		for ci, col := range sh.Cols {
			var want driver.Value
			switch col.Kind {
			case model.KInt:
				want = int64(col.I[r])
			case model.KFloat:
				want = col.F[r]
			case model.KBool:
				want = col.B[r]
			default:
				if col.S[r] != nil {
					want = *col.S[r]
				}
			}
			got := e.Args[ci]
			same := got == want
			if wf, ok := want.(float64); ok {
				gf, ok2 := got.(float64)
				same = ok2 && (math.Float64bits(gf) == math.Float64bits(wf) || (math.IsNaN(gf) && math.IsNaN(wf)))
			}
			if !same {
				c.Fail("args:"+col.Kind.String(), "statement %d (frame row %d, index %s): argument %d (%q) is %#v, want %#v", r, r, root.Shape, ci, col.Name, got, want)
				return
			}
		}
	}
	// ---- read the stored table back
	c.Eval(1)
	c.Count("round_trips", 1)
	// the driver splits the column list at commas and keeps identifiers as written
	tbl := db.Tables[wrap(table)]
	if tbl == nil {
		c.Fail("store", "the driver stored no table named %q", wrap(table))
		return
	}
	for i := range tbl.Cols {
		tbl.Cols[i] = memsql.SplitIdent(tbl.Cols[i], esc)
	}
	var back qframe.QFrame
	db.TextAsBytes = rng.Intn(2) == 0
	if db.TextAsBytes {
		c.Count("readbacks_with_text_as_reused_bytes", 1)
	}
	if !c.GuardFail("readsql", "ReadSQL after ToSQL", func() { back = qframe.ReadSQL(tx, qsql.Query("SELECT * FROM "+wrap(table))) }) {
		return
	}
	if back.Err != nil {
		c.Fail("roundtrip-err", "ReadSQL of the rows written by ToSQL failed: %v", back.Err)
		return
	}
	got, oerr := model.ObserveGuard(back)
	if oerr != nil {
		c.Fail("observe", "%v", oerr)
		return
	}
	want := &model.Frame{}
	for _, col := range sh.Cols {
		cp := col.Clone()
		if cp.Kind == model.KEnum {
			cp.Kind = model.KString
		}
		want.Cols = append(want.Cols, cp)
	}
	if d := model.Diff(want, got); d != "" {
		c.Fail("roundtrip-differs", "ToSQL -> ReadSQL differs from the frame: %s", d)
	}
	_ = tx.Rollback()
}

func c19Read(c *fw.Case) {
	rng := c.Rng
	ncols := 1 + rng.Intn(5)
	nrows := 1 + rng.Intn(30)
	t := &memsql.Table{}
	want := &model.Frame{}
	var coerce []qsql.CoercePair
	precision := 0
	if rng.Intn(4) == 0 {
		precision = 1 + rng.Intn(4)
	}
	leadingNull := false
	kinds := make([]string, ncols)
	unsortedNames, nameShift := rng.Intn(2) == 0, rng.Intn(8)
	for i := 0; i < ncols; i++ {
		name := fmt.Sprintf("c%d", i)
		if unsortedNames {
			name = []string{"zz", "ID", "name", "b", "ACTIVE", "a", "m_9", "Col"}[(i*5+nameShift)%8] + fmt.Sprint(i)
		}
		t.Cols = append(t.Cols, name)
		kinds[i] = []string{"int", "float", "bool", "text", "bytes", "int->bool", "text->float"}[rng.Intn(7)]
		switch kinds[i] {
		case "int->bool":
			coerce = append(coerce, qsql.CoercePair{Column: name, Type: qsql.Int64ToBool})
		case "text->float":
			coerce = append(coerce, qsql.CoercePair{Column: name, Type: qsql.StringToFloat})
		}
	}
	cols := make([][]driver.Value, ncols)
	for i := 0; i < ncols; i++ {
		vals := make([]driver.Value, nrows)
		var wc *model.Col
		nullable := kinds[i] == "float" || kinds[i] == "text" || kinds[i] == "bytes"
		lead := 0
		if nullable && rng.Intn(3) == 0 && nrows > 1 {
			lead = 1 + rng.Intn(nrows-1)
			leadingNull = true
		}
		nonNull := rng.Intn(nrows)
		if nonNull < lead {
			nonNull = lead
		}
		switch kinds[i] {
		case "int":
			wc = model.NewCol(t.Cols[i], model.KInt, nrows)
		case "float", "text->float":
			wc = model.NewCol(t.Cols[i], model.KFloat, nrows)
		case "bool", "int->bool":
			wc = model.NewCol(t.Cols[i], model.KBool, nrows)
		default:
			wc = model.NewCol(t.Cols[i], model.KString, nrows)
		}
		for r := 0; r < nrows; r++ {
			isNull := nullable && (r < lead || (r != nonNull && rng.Intn(5) == 0))
			switch kinds[i] {
			case "int":
				v := model.IntPool[rng.Intn(len(model.IntPool))]
				vals[r], wc.I[r] = int64(v), v
			case "float":
				if isNull {
					vals[r], wc.F[r] = nil, math.NaN()
				} else {
					v := float64(rng.Intn(2000001)-1000000) / 1024
					if precision == 0 && rng.Intn(4) == 0 {
						v = model.FloatPool[rng.Intn(len(model.FloatPool))]
					}
					vals[r] = v
					if precision > 0 {
						p := math.Pow(10, float64(precision))
						v = float64(int(v*p+math.Copysign(0.5, v*p))) / p
					}
					wc.F[r] = v
				}
			case "bool":
				v := rng.Intn(2) == 0
				vals[r], wc.B[r] = v, v
			case "int->bool":
				v := []int64{0, 1, 2, -1, 0}[rng.Intn(5)]
				vals[r], wc.B[r] = v, v != 0
			case "text->float":
				v := float64(rng.Intn(20001)-10000) / 16
				vals[r] = fmt.Sprintf("%v", v)
				if precision > 0 {
					p := math.Pow(10, float64(precision))
					v = float64(int(v*p+math.Copysign(0.5, v*p))) / p
				}
				wc.F[r] = v
			case "text", "bytes":
				if isNull {
					vals[r] = nil
				} else {
					s := model.StringPool[rng.Intn(len(model.StringPool))]
					if kinds[i] == "bytes" {
						vals[r] = []byte(s)
					} else {
						vals[r] = s
					}
					wc.S[r] = model.StrP(s)
				}
			}
		}
		cols[i] = vals
		want.Cols = append(want.Cols, wc)
	}
	for r := 0; r < nrows; r++ {
		row := make([]driver.Value, ncols)
		for i := range row {
			row[i] = cols[i][r]
		}
		t.Rows = append(t.Rows, row)
	}
	c.DescribeLazy(func() interface{} {
		return map[string]interface{}{"operation": "ReadSQL of a generated result set", "column_kinds": kinds, "precision": precision, "rows": fmt.Sprintf("%v", t.Rows)}
	})
	db := memsql.New()
	db.Result = t
	db.TextAsBytes = rng.Intn(2) == 0
	if db.TextAsBytes {
		c.Count("result_sets_with_text_as_reused_bytes", 1)
	}
	sdb := db.Open()
	defer sdb.Close()
	tx, err := sdb.Begin()
	if err != nil {
		return
	}
	defer tx.Rollback() //nolint
	fns := []qsql.ConfigFunc{qsql.Query("SELECT * FROM whatever")}
	if len(coerce) > 0 {
		fns = append(fns, qsql.Coerce(coerce...))
	}
	if precision > 0 {
		fns = append(fns, qsql.Precision(precision))
	}
	c.Eval(1)
	if leadingNull {
		c.Nontrivial(fmt.Sprint(t.Rows), precision)
		c.Count("result_sets_with_leading_null", 1)
	}
	var res qframe.QFrame
	// every third result set is fetched through ReadSQLWithArgs: the arguments must reach the driver unchanged
	var qargs []interface{}
	if c.No%3 == 1 {
		qargs = []interface{}{int64(rng.Intn(100)), "arg", 1.5, true}[:1+rng.Intn(4)]
	}
	twice := rng.Intn(2) == 0
	if !c.GuardFail("readsql", "ReadSQL", func() {
		if twice {
			// the same option values (Query, Coerce, Precision) configure two reads; the second result is examined
			_ = qframe.ReadSQL(tx, fns...)
		}
		if qargs != nil {
			res = qframe.ReadSQLWithArgs(tx, qargs, fns...)
		} else {
			res = qframe.ReadSQL(tx, fns...)
		}
	}) {
		return
	}
	if qargs != nil {
		c.Count("read_with_args", 1)
		var got []driver.Value
		found := false
		for _, e := range db.Log {
			if e.Kind == "query" {
				got, found = e.Args, true
				if e.Query != "SELECT * FROM whatever" {
					c.Fail("query-text", "driver received query %q", e.Query)
				}
			}
		}
		if !found || len(got) != len(qargs) {
			c.Fail("query-args", "ReadSQLWithArgs(%v): driver received %v", qargs, got)
		} else {
			for i := range qargs {
				if got[i] != qargs[i] {
					c.Fail("query-args", "ReadSQLWithArgs(%v): driver received %v", qargs, got)
					break
				}
			}
		}
	}
	if res.Err != nil {
		c.Fail("readsql-err", "ReadSQL rejected a result set (%v, precision %d): %v", kinds, precision, res.Err)
		return
	}
	got, oerr := model.ObserveGuard(res)
	if oerr != nil {
		c.Fail("observe", "%v", oerr)
		return
	}
	if d := model.Diff(want, got); d != "" {
		key := "readsql-differs"
		for i, wc := range want.Cols {
			if i < len(got.Cols) && (wc.Kind != got.Cols[i].Kind || model.Diff(&model.Frame{Cols: []*model.Col{wc}}, &model.Frame{Cols: []*model.Col{got.Cols[i]}}) != "") {
				key += ":" + kinds[i]
				break
			}
		}
		c.Fail(key, "ReadSQL differs from the result set (%v, precision %d): %s", kinds, precision, d)
	}
}

var insertShape = regexp.MustCompile(`(?is)^\s*INSERT\s+INTO\s+(.*?)\s*\((.*)\)\s*VALUES\s*\((.*)\)\s*;?\s*$`)

// sameInsert accepts cosmetic variations (case of keywords, blanks, optional semicolon) of the expected statement.
func sameInsert(got, table string, cols, placeholders []string) bool {
	m := insertShape.FindStringSubmatch(got)
	if m == nil || m[1] != table {
		return false
	}
	split := func(s string) []string {
		parts := strings.Split(s, ",")
		for i := range parts {
			parts[i] = strings.TrimSpace(parts[i])
		}
		return parts
	}
	gc, gp := split(m[2]), split(m[3])
	if len(gc) != len(cols) || len(gp) != len(placeholders) {
		return false
	}
	for i := range cols {
		if gc[i] != strings.TrimSpace(cols[i]) || gp[i] != placeholders[i] {
			return false
		}
	}
	return true
}
