package props

import (
	"fmt"
	"math"
	"math/rand"
	"strings"

	"github.com/tobgu/qframe"
	"github.com/tobgu/qframe/types"

	"qverif/fw"
	"qverif/model"
)

func init() {
	fw.Register(&fw.Property{
		ID:    "C06",
		Level: "exploration",
		Rule: "case = one derived frame x 3 programs of 1-6 Apply instructions (constants of every type, ColumnName copies, func() T, all func(T) U signature pairs, func(T,T) T, built-in ToUpper) with sources and destinations overlapping arbitrarily, " +
			"each run through Apply, and through FilteredApply with a random valid clause, plus WithRowNums; the shadow model executes the same program row by row; user functions record how often and with which arguments they were called; " +
			"evaluation = one program execution compared cell by cell; non-trivial = non-identity physical index and an instruction that reads a column written earlier or overwrites one of its sources; distinct by (program text, frame ids)",
		Assumptions: []string{
			"user functions are pure; rows not matching a FilteredApply clause may hold null or \"\" in string destinations; strings are valid UTF-8 (upper-casing of invalid UTF-8 is not specified)",
			"observation through typed views is faithful (C09); clause semantics are those of C02",
		},
		Stages:   stages(15000, 1400000, 500, 0),
		RunCase:  runC06,
		Conclude: shapeConclude(40),
	})
}

type instr struct {
	kind  string // const | copy | f0 | f1 | f2 | toupper
	dst   string
	src1  string
	src2  string
	out   model.Kind
	salt  uint64
	cI    int
	cF    float64
	cB    bool
	cS    *string
	asPtr bool // string constant passed as *string
	calls *int
	argH  *uint64
}

func (in *instr) String() string {
	switch in.kind {
	case "const":
		v := ""
		switch in.out {
		case model.KInt:
			v = fmt.Sprint(in.cI)
		case model.KFloat:
			v = fmt.Sprintf("float64(%v)", in.cF)
		case model.KBool:
			v = fmt.Sprint(in.cB)
		default:
			if in.cS == nil {
				v = "(*string)(nil)"
			} else {
				v = fmt.Sprintf("%q", *in.cS)
			}
		}
		return fmt.Sprintf("{%q = const %s}", in.dst, v)
	case "copy":
		return fmt.Sprintf("{%q = ColumnName(%q)}", in.dst, in.src1)
	case "f0":
		return fmt.Sprintf("{%q = func() %s}", in.dst, in.out)
	case "f1":
		return fmt.Sprintf("{%q = func(%q) %s}", in.dst, in.src1, in.out)
	case "f2":
		return fmt.Sprintf("{%q = func(%q, %q)}", in.dst, in.src1, in.src2)
	}
	return fmt.Sprintf("{%q = ToUpper(%q)}", in.dst, in.src1)
}

func hCell(salt uint64, c *model.Col, r int) uint64 {
	switch c.Kind {
	case model.KInt:
		return fw.Hash64(salt, "i", c.I[r])
	case model.KFloat:
		return hFloat(salt, c.F[r])
	case model.KBool:
		return fw.Hash64(salt, "b", c.B[r])
	default:
		return hStr(salt, c.S[r])
	}
}

func hFloat(salt uint64, f float64) uint64 {
	if math.IsNaN(f) {
		return fw.Hash64(salt, "f", "nan")
	}
	return fw.Hash64(salt, "f", math.Float64bits(f))
}

func hStr(salt uint64, s *string) uint64 {
	if s == nil {
		return fw.Hash64(salt, "s", "<nil>")
	}
	return fw.Hash64(salt, "s", "v", *s)
}

func outInt(h uint64) int { return int(h%2001) - 1000 }
func outFloat(h uint64) float64 {
	if h%17 == 0 {
		return math.NaN()
	}
	return float64(int(h%2001)-1000) / 8
}
func outBool(h uint64) bool { return h%2 == 0 }
func outStr(h uint64) *string {
	if h%13 == 0 {
		return nil
	}
	s := fmt.Sprintf("s%d", h%50)
	return &s
}

func setOut(col *model.Col, r int, h uint64) {
	switch col.Kind {
	case model.KInt:
		col.I[r] = outInt(h)
	case model.KFloat:
		col.F[r] = outFloat(h)
	case model.KBool:
		col.B[r] = outBool(h)
	default:
		col.S[r] = outStr(h)
	}
}

func (in *instr) note(h uint64) {
	*in.calls++
	*in.argH += h
}

// real builds the qframe instruction. srcKind is the kind of the first source column.
func (in *instr) real(srcKind model.Kind) qframe.Instruction {
	q := qframe.Instruction{DstCol: in.dst, SrcCol1: in.src1, SrcCol2: in.src2}
	salt := in.salt
	switch in.kind {
	case "const":
		switch in.out {
		case model.KInt:
			q.Fn = in.cI
		case model.KFloat:
			q.Fn = in.cF
		case model.KBool:
			q.Fn = in.cB
		default:
			if in.cS == nil {
				q.Fn = (*string)(nil)
			} else if in.asPtr {
				q.Fn = model.StrP(*in.cS)
			} else {
				q.Fn = *in.cS
			}
		}
	case "copy":
		q.Fn = types.ColumnName(in.src1)
		q.SrcCol1 = ""
	case "f0":
		h := fw.Hash64(salt, "f0")
		switch in.out {
		case model.KInt:
			q.Fn = func() int { in.note(1); return outInt(h) }
		case model.KFloat:
			q.Fn = func() float64 { in.note(1); return outFloat(h) }
		case model.KBool:
			q.Fn = func() bool { in.note(1); return outBool(h) }
		default:
			q.Fn = func() *string { in.note(1); return outStr(h) }
		}
	case "toupper":
		q.Fn = "ToUpper"
	case "f1":
		switch srcKind {
		case model.KInt:
			hf := func(x int) uint64 { h := fw.Hash64(salt, "i", x); in.note(h); return h }
			switch in.out {
			case model.KInt:
				q.Fn = func(x int) int { return outInt(hf(x)) }
			case model.KFloat:
				q.Fn = func(x int) float64 { return outFloat(hf(x)) }
			case model.KBool:
				q.Fn = func(x int) bool { return outBool(hf(x)) }
			default:
				q.Fn = func(x int) *string { return outStr(hf(x)) }
			}
		case model.KFloat:
			hf := func(x float64) uint64 { h := hFloat(salt, x); in.note(h); return h }
			switch in.out {
			case model.KInt:
				q.Fn = func(x float64) int { return outInt(hf(x)) }
			case model.KFloat:
				q.Fn = func(x float64) float64 { return outFloat(hf(x)) }
			case model.KBool:
				q.Fn = func(x float64) bool { return outBool(hf(x)) }
			default:
				q.Fn = func(x float64) *string { return outStr(hf(x)) }
			}
		case model.KBool:
			hf := func(x bool) uint64 { h := fw.Hash64(salt, "b", x); in.note(h); return h }
			switch in.out {
			case model.KInt:
				q.Fn = func(x bool) int { return outInt(hf(x)) }
			case model.KFloat:
				q.Fn = func(x bool) float64 { return outFloat(hf(x)) }
			case model.KBool:
				q.Fn = func(x bool) bool { return outBool(hf(x)) }
			default:
				q.Fn = func(x bool) *string { return outStr(hf(x)) }
			}
		default:
			hf := func(x *string) uint64 { h := hStr(salt, x); in.note(h); return h }
			switch in.out {
			case model.KInt:
				q.Fn = func(x *string) int { return outInt(hf(x)) }
			case model.KFloat:
				q.Fn = func(x *string) float64 { return outFloat(hf(x)) }
			case model.KBool:
				q.Fn = func(x *string) bool { return outBool(hf(x)) }
			default:
				// like function.StrS / ConcatS in qframe's own function package this one may hand its argument back
				q.Fn = func(x *string) *string {
					h := hf(x)
					if h%3 == 0 {
						return x
					}
					return outStr(h)
				}
			}
		}
	case "f2":
		switch srcKind {
		case model.KInt:
			q.Fn = func(x, y int) int {
				h := fw.Hash64(salt, "i", x) ^ fw.Hash64(salt+1, "i", y)
				in.note(h)
				return outInt(h)
			}
		case model.KFloat:
			q.Fn = func(x, y float64) float64 { h := hFloat(salt, x) ^ hFloat(salt+1, y); in.note(h); return outFloat(h) }
		case model.KBool:
			q.Fn = func(x, y bool) bool {
				h := fw.Hash64(salt, "b", x) ^ fw.Hash64(salt+1, "b", y)
				in.note(h)
				return outBool(h)
			}
		default:
			q.Fn = func(x, y *string) *string {
				h := hStr(salt, x) ^ hStr(salt+1, y)
				in.note(h)
				switch h % 4 {
				case 0:
					return x
				case 1:
					return y
				}
				return outStr(h)
			}
		}
	}
	return q
}

// exec runs the instruction on the shadow for the rows in `rows` (all other rows get the zero/null value)
// and returns the expected number of user-function calls and the expected sum of argument hashes.
func (in *instr) exec(f *model.Frame, rows []int, partial bool) (calls int, argH uint64) {
	n := f.Len()
	var dst *model.Col
	s1 := f.Col(in.src1)
	s2 := f.Col(in.src2)
	switch in.kind {
	case "const":
		dst = model.NewCol(in.dst, in.out, n)
		for _, r := range rows {
			switch in.out {
			case model.KInt:
				dst.I[r] = in.cI
			case model.KFloat:
				dst.F[r] = in.cF
			case model.KBool:
				dst.B[r] = in.cB
			default:
				dst.S[r] = in.cS
			}
		}
	case "copy":
		dst = model.NewCol(in.dst, s1.Kind, n)
		dst.EnumKnown, dst.EnumVals = s1.EnumKnown, s1.EnumVals
		for _, r := range rows {
			dst.Set(r, s1, r)
		}
	case "f0":
		dst = model.NewCol(in.dst, in.out, n)
		h := fw.Hash64(in.salt, "f0")
		for _, r := range rows {
			setOut(dst, r, h)
			calls++
			argH++
		}
	case "toupper":
		dst = model.NewCol(in.dst, s1.Kind, n)
		if s1.Kind == model.KEnum {
			dst.EnumKnown = false
		}
		for _, r := range rows {
			if s1.S[r] != nil {
				dst.S[r] = model.StrP(strings.ToUpper(*s1.S[r]))
			}
		}
	case "f1":
		dst = model.NewCol(in.dst, in.out, n)
		strToStr := in.out == model.KString && (s1.Kind == model.KString || s1.Kind == model.KEnum)
		for _, r := range rows {
			h := hCell(in.salt, s1, r)
			if strToStr && h%3 == 0 {
				dst.S[r] = s1.S[r] // the function returned its argument
			} else {
				setOut(dst, r, h)
			}
			calls++
			argH += h
		}
	case "f2":
		k := s1.Kind
		if k == model.KEnum {
			k = model.KString
		}
		dst = model.NewCol(in.dst, k, n)
		for _, r := range rows {
			h := hCell(in.salt, s1, r) ^ hCell(in.salt+1, s2, r)
			switch {
			case k == model.KString && h%4 == 0:
				dst.S[r] = s1.S[r]
			case k == model.KString && h%4 == 1:
				dst.S[r] = s2.S[r]
			default:
				setOut(dst, r, h)
			}
			calls++
			argH += h
		}
	}
	if partial && (dst.Kind == model.KString || dst.Kind == model.KEnum) {
		// zero/null for the remaining rows of string-like destinations: null (or "" which is normalised by the caller)
	}
	replaced := false
	for i, col := range f.Cols {
		if col.Name == in.dst {
			f.Cols[i] = dst
			replaced = true
		}
	}
	if !replaced {
		f.Cols = append(f.Cols, dst)
	}
	return calls, argH
}

func genProgram(rng *rand.Rand, sh *model.Frame) []*instr {
	work := &model.Frame{Cols: append([]*model.Col(nil), sh.Cols...)}
	n := 1 + rng.Intn(6)
	if rng.Intn(2) == 0 {
		n = 1 + rng.Intn(3)
	}
	var prog []*instr
	newNames := []string{"n1", "n2", "n3", "out", "const-temp-0"}
	for len(prog) < n {
		in := &instr{salt: rng.Uint64(), calls: new(int), argH: new(uint64)}
		// destination
		if rng.Intn(2) == 0 {
			in.dst = newNames[rng.Intn(len(newNames))]
		} else {
			in.dst = work.Cols[rng.Intn(len(work.Cols))].Name
		}
		if in.dst == model.IDCol {
			continue
		}
		src := work.Cols[rng.Intn(len(work.Cols))]
		outs := []model.Kind{model.KInt, model.KFloat, model.KBool, model.KString}
		switch rng.Intn(10) {
		case 0, 1:
			in.kind = "const"
			in.out = outs[rng.Intn(4)]
			in.cI = []int{0, 1, -5, 42}[rng.Intn(4)]
			in.cF = []float64{0, 1.5, -2.25, math.NaN(), math.Inf(1), math.Copysign(0, -1), model.NaNPayload}[rng.Intn(7)]
			in.cB = rng.Intn(2) == 0
			switch rng.Intn(4) {
			case 0:
				in.cS = nil
			case 1:
				in.cS = model.StrP("")
			default:
				in.cS = model.StrP([]string{"k", "hello", "a\"b", "é"}[rng.Intn(4)])
			}
			in.asPtr = rng.Intn(2) == 0
		case 2:
			in.kind = "copy"
			in.src1 = src.Name
			if in.src1 == in.dst {
				continue
			}
		case 3:
			in.kind = "f0"
			in.out = outs[rng.Intn(4)]
		case 4:
			if src.Kind != model.KString && src.Kind != model.KEnum {
				continue
			}
			in.kind = "toupper"
			in.src1 = src.Name
		case 5, 6, 7:
			in.kind = "f1"
			in.src1 = src.Name
			in.out = outs[rng.Intn(4)]
		default:
			var cands []*model.Col
			for _, o := range work.Cols {
				if o.Kind == src.Kind {
					cands = append(cands, o)
				}
			}
			in.kind = "f2"
			in.src1 = src.Name
			in.src2 = cands[rng.Intn(len(cands))].Name
		}
		// keep the work schema up to date (types only)
		var dk model.Kind
		switch in.kind {
		case "copy", "toupper":
			dk = src.Kind
		case "f2":
			dk = src.Kind
			if dk == model.KEnum {
				dk = model.KString
			}
		default:
			dk = in.out
		}
		nc := &model.Col{Name: in.dst, Kind: dk}
		replaced := false
		for i, col := range work.Cols {
			if col.Name == in.dst {
				work.Cols[i] = nc
				replaced = true
			}
		}
		if !replaced {
			work.Cols = append(work.Cols, nc)
		}
		prog = append(prog, in)
	}
	return prog
}

func progString(prog []*instr) string {
	parts := make([]string, len(prog))
	for i, in := range prog {
		parts[i] = in.String()
	}
	return strings.Join(parts, " ")
}

func progNontrivial(prog []*instr) bool {
	written := map[string]bool{}
	for _, in := range prog {
		if written[in.src1] || (in.src2 != "" && written[in.src2]) {
			return true
		}
		if in.dst == in.src1 || (in.src2 != "" && in.dst == in.src2) {
			return true
		}
		written[in.dst] = true
	}
	return false
}

func runC06(c *fw.Case) {
	rng := c.Rng
	maxRows := 200
	if rng.Intn(30) == 0 {
		maxRows = 3000
	}
	root, err := model.MakeRoot(rng, model.GenOpts{Rows: model.PickRows(rng, maxRows), MinCols: 2, MaxCols: 6, ID: true, NoCR: true, UTF8: true}, 5, true)
	if err != nil {
		c.Count("root_build_failed", 1)
		return
	}
	if rng.Intn(6) == 0 {
		if ar := aggregateDerive(rng, root); ar != nil {
			root = ar
			c.Count("roots_produced_by_aggregate", 1)
		}
	}
	sh := root.Shadow
	c.Count("shape:"+root.Shape, 1)
	var progs []string
	c.DescribeLazy(func() interface{} {
		d := root.Describe(25)
		d["programs"] = progs
		return d
	})
	n := sh.Len()
	all := seqRange(0, n)
	nonIdent := root.Shape != "identity"

	// results of plain Apply calls are kept and observed a second time after all later calls on the same
	// receiver ("all other columns stay as they were" must not depend on what is derived next from the receiver)
	type heldRes struct {
		res  qframe.QFrame
		want *model.Frame
		desc string
	}
	var held []heldRes
	defer func() {
		if c.Failed() {
			return
		}
		for _, h := range held {
			c.Eval(1)
			c.Count("delayed_reobservations", 1)
			got, oerr := model.ObserveGuard(h.res)
			if oerr != nil {
				c.Fail("observe:delayed", "%s: second observation: %v", h.desc, oerr)
				return
			}
			if d := model.Diff(h.want, got); d != "" {
				c.Fail("differs:delayed", "result of %s on frame (index %s, %d rows) was correct when returned but differs after later Apply/FilteredApply/WithRowNums calls on the same receiver: %s", h.desc, root.Shape, n, d)
				return
			}
		}
	}()
	for k := 0; k < 3; k++ {
		prog := genProgram(rng, sh)
		ptxt := progString(prog)

		run := func(mode string, rows []int, clause *model.Clause) {
			for _, in := range prog {
				*in.calls, *in.argH = 0, 0
			}
			want := &model.Frame{Cols: append([]*model.Col(nil), sh.Cols...)}
			// model of the recorded finding: column copies and the built-in enum ToUpper ignore the row filter of FilteredApply
			wantKnown := &model.Frame{Cols: append([]*model.Col(nil), sh.Cols...)}
			knownApplies := false
			type exp struct {
				calls int
				argH  uint64
			}
			exps := make([]exp, len(prog))
			reals := make([]qframe.Instruction, len(prog))
			dsts := map[string]bool{}
			for i, in := range prog {
				sk := model.KInt
				if in.src1 != "" {
					sk = want.Col(in.src1).Kind
				}
				reals[i] = in.real(sk)
				if clause != nil {
					if in.kind == "copy" || (in.kind == "toupper" && sk == model.KEnum) {
						knownApplies = true
						in.exec(wantKnown, all, true)
					} else {
						in.exec(wantKnown, rows, true)
					}
				}
				cl, ah := in.exec(want, rows, clause != nil)
				exps[i] = exp{cl, ah}
				dsts[in.dst] = true
			}
			desc := mode + " " + ptxt
			if clause != nil {
				desc = fmt.Sprintf("FilteredApply(%s; %s)", clause.String(), ptxt)
			}
			progs = append(progs, desc)
			c.Eval(1)
			var res qframe.QFrame
			if !c.GuardFail(mode, desc, func() {
				if clause != nil {
					res = root.QF.FilteredApply(clause.Real(sh.Kinds()), reals...)
				} else {
					res = root.QF.Apply(reals...)
				}
			}) {
				return
			}
			if res.Err != nil {
				c.Fail("err:"+mode, "%s rejected: %v", desc, res.Err)
				return
			}
			got, oerr := model.ObserveGuard(res)
			if oerr != nil {
				c.Fail("observe", "%s: %v", desc, oerr)
				return
			}
			if nonIdent && progNontrivial(prog) {
				c.Nontrivial(desc, idKey(sh.IDs()))
				c.Count("nontrivial_programs", 1)
			}
			if clause != nil {
				// "" is accepted instead of null in rows that do not match
				match := map[int]bool{}
				for _, r := range rows {
					match[r] = true
				}
				for _, col := range append(append([]*model.Col(nil), got.Cols...), wantKnown.Cols...) {
					if dsts[col.Name] && (col.Kind == model.KString || col.Kind == model.KEnum) && col.Len() == n {
						for r := 0; r < n; r++ {
							if !match[r] && col.S[r] != nil && *col.S[r] == "" {
								col.S[r] = nil
							}
						}
					}
				}
			}
			if d := model.Diff(want, got); d != "" {
				if knownApplies && model.Diff(wantKnown, got) == "" {
					c.Fail("filteredapply-copy-or-enum-toupper-ignores-filter", "%s on frame (index %s, %d rows): %s (exactly the recorded behaviour: rows that do not match keep the copied / upper-cased value)", desc, root.Shape, n, d)
					return
				}
				c.Fail(c06Key(mode, prog, want, got), "%s on frame (index %s, %d rows): %s", desc, root.Shape, n, d)
				return
			}
			if clause == nil {
				held = append(held, heldRes{res, want, desc})
			}
			for i, in := range prog {
				if in.kind == "f0" || in.kind == "f1" || in.kind == "f2" {
					if *in.calls != exps[i].calls || *in.argH != exps[i].argH {
						c.Fail("fn-calls:"+mode+":"+in.kind, "%s: instruction %d %s: function called %d times (argument hash sum %x), expected %d calls with the rows' own values (%x)",
							desc, i, in.String(), *in.calls, *in.argH, exps[i].calls, exps[i].argH)
						return
					}
					c.Count("recorded_function_calls_checked", int64(exps[i].calls))
				}
			}
		}

		run("Apply", all, nil)
		if cl := model.GenClause(rng, sh, 1+rng.Intn(3)); cl != nil {
			var rows []int
			for r := 0; r < n; r++ {
				if cl.Eval(sh, r) {
					rows = append(rows, r)
				}
			}
			run("FilteredApply", rows, cl)
		}
	}

	// WithRowNums
	name := []string{"rn", sh.Cols[rng.Intn(len(sh.Cols))].Name}[rng.Intn(2)]
	if name != model.IDCol {
		c.Eval(1)
		var res qframe.QFrame
		if c.GuardFail("withrownums", "WithRowNums", func() { res = root.QF.WithRowNums(name) }) {
			if res.Err != nil {
				c.Fail("err:WithRowNums", "WithRowNums(%q) rejected: %v", name, res.Err)
			} else if got, oerr := model.ObserveGuard(res); oerr == nil {
				want := &model.Frame{Cols: append([]*model.Col(nil), sh.Cols...)}
				rn := model.NewCol(name, model.KInt, n)
				for i := range rn.I {
					rn.I[i] = i
				}
				repl := false
				for i, col := range want.Cols {
					if col.Name == name {
						want.Cols[i] = rn
						repl = true
					}
				}
				if !repl {
					want.Cols = append(want.Cols, rn)
				}
				if d := model.Diff(want, got); d != "" {
					c.Fail("differs:WithRowNums", "WithRowNums(%q) on frame (index %s): %s", name, root.Shape, d)
				}
			}
		}
	}
}

// c06Key names the instruction kind whose destination differs.
func c06Key(mode string, prog []*instr, want, got *model.Frame) string {
	if len(want.Cols) != len(got.Cols) {
		return "differs:" + mode + ":schema"
	}
	for i, wc := range want.Cols {
		gc := got.Cols[i]
		if wc.Name != gc.Name || wc.Kind != gc.Kind || wc.Len() != gc.Len() {
			return "differs:" + mode + ":schema"
		}
		for r := 0; r < wc.Len(); r++ {
			if !model.CellEq(wc, r, gc, r) {
				kind := "untouched-column"
				for _, in := range prog {
					if in.dst == wc.Name {
						kind = in.kind
						if in.kind == "toupper" {
							kind += "-" + wc.Kind.String()
						}
					}
				}
				return "differs:" + mode + ":" + kind
			}
		}
	}
	return "differs:" + mode
}
