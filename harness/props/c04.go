package props

import (
	"fmt"
	"math"
	"math/rand"
	"sort"
	"strings"

	"github.com/tobgu/qframe"
	"github.com/tobgu/qframe/config/groupby"

	"qverif/fw"
	"qverif/hooks"
	"qverif/model"
)

func init() {
	fw.Register(&fw.Property{
		ID:    "C04",
		Level: "exploration",
		Rule: "case = one derived frame (key material of all types: swapped multi-column values, null vs \"\" vs \"\\x00\", +0/-0, NaN payloads; cardinalities from 1 to n) x 3 GroupBy configurations (random key subset/order, both Null settings); " +
			"for each: QFrames() compared as a set of id sequences with the reference partition, and Aggregate with a recording user function on __id plus random built-in and recording user aggregations compared per group; " +
			"every 7th case groups frames built around full 32-bit hash collisions found at run time through the row-hash hook; non-trivial = >=2 classes and >=1 class with >=2 rows; distinct by (keys, Null, id sequence)",
		Assumptions: []string{
			"key equality is == on values (0.0 equals -0.0), null/NaN equal only with Null(true)",
			"built-in float aggregations are only compared on NaN-free columns whose sums are exact (multiples of 1/8)",
			"GroupBy with no columns on an empty frame is not demanded either way",
			"order of groups is free; the order of rows inside a group is frame order",
		},
		Stages:   stages(4000, 100000, 300, 300),
		RunCase:  runC04,
		Conclude: shapeConclude(30),
	})
	fw.Register(&fw.Property{
		ID:    "C05",
		Level: "exploration",
		Rule: "case = one derived frame (same key material as C04, with and without the unique id column) x 4 Distinct configurations (random key subset incl. none, both Null settings); evaluation = one Distinct checked to be a " +
			"duplicate-free set of unmodified input rows containing exactly one row of every reference key class; every 7th case uses frames built around constructed 32-bit hash collisions; " +
			"non-trivial = >=2 classes and >=1 class with >=2 rows; distinct by (keys, Null, id sequence)",
		Assumptions: []string{
			"key equality as for GroupBy (C04)",
			"which row of a class is kept and the order of the result are free",
		},
		Stages:   stages(5000, 150000, 300, 300),
		RunCase:  runC05,
		Conclude: shapeConclude(30),
	})
}

// ---------------------------------------------------------------- frames for grouping

type collisionSet struct {
	intPairs [][2]int
	strPairs [][2]string
}

// findCollisions searches full 32 bit collisions of the real row hash in this process.
func findCollisions(c *fw.Case) *collisionSet {
	if v, ok := c.W.Cache["collisions"]; ok {
		return v.(*collisionSet)
	}
	cs := &collisionSet{}
	c.W.Cache["collisions"] = cs
	if !hooks.Available {
		return cs
	}
	n := 400000
	rng := rand.New(rand.NewSource(12345))
	ints := make([]int, n)
	seen := map[int]bool{}
	for i := range ints {
		for {
			v := int(rng.Uint64() >> 8)
			if rng.Intn(2) == 0 {
				v = -v
			}
			if !seen[v] {
				seen[v] = true
				ints[i] = v
				break
			}
		}
	}
	strs := make([]string, n)
	for i := range strs {
		strs[i] = fmt.Sprintf("s%x-%d", rng.Uint32(), i)
	}
	qf := qframe.New(map[string]interface{}{"i": ints, "s": strs})
	if qf.Err != nil {
		return cs
	}
	byHashI := map[uint32]int{}
	byHashS := map[uint32]int{}
	for r := 0; r < n; r++ {
		if h, ok := hooks.RowHash(qf, []string{"i"}, false, r); ok {
			if o, dup := byHashI[h]; dup {
				cs.intPairs = append(cs.intPairs, [2]int{ints[o], ints[r]})
			} else {
				byHashI[h] = r
			}
		}
		if h, ok := hooks.RowHash(qf, []string{"s"}, false, r); ok {
			if o, dup := byHashS[h]; dup {
				cs.strPairs = append(cs.strPairs, [2]string{strs[o], strs[r]})
			} else {
				byHashS[h] = r
			}
		}
	}
	return cs
}

// groupRoot makes a frame suited for grouping tests. withID controls the unique id column.
func groupRoot(c *fw.Case, withID bool) (*model.Root, string, error) {
	rng := c.Rng
	class := "random"
	maxRows := 300
	switch rng.Intn(30) {
	case 0, 1:
		maxRows = 5000
	case 2:
		maxRows = 20000
		if c.Thorough() && rng.Intn(4) == 0 {
			maxRows = 200000
		}
	}
	rows := model.PickRows(rng, maxRows)
	if maxRows >= 20000 {
		rows = maxRows/4 + rng.Intn(maxRows*3/4)
	}
	var f *model.Frame
	if c.No%500 == 17 {
		// very high cardinality: tens of thousands of distinct keys recurring after every growth step of the table
		class = "huge-cardinality"
		rows = 90000 + rng.Intn(90000)
		card := rows/3 + rng.Intn(rows/6)
		ki := model.NewCol("ki", model.KInt, rows)
		ks := model.NewCol("ks", model.KString, rows)
		for i := 0; i < rows; i++ {
			v := rng.Intn(card)
			ki.I[i] = v*7919 - 1000000
			ks.S[i] = model.StrP(fmt.Sprintf("k%d", v%997))
		}
		f = &model.Frame{Cols: []*model.Col{ki, ks}}
		if rng.Intn(2) == 0 {
			// null string keys and NaN float keys (their hash is random when nulls are not equal to each other)
			kf := model.NewCol("kf", model.KFloat, rows)
			for i := 0; i < rows; i++ {
				kf.F[i] = float64(ki.I[i]%1000) / 4
				if rng.Intn(30) == 0 {
					kf.F[i] = math.NaN()
				}
				if rng.Intn(30) == 0 {
					ks.S[i] = nil
				}
			}
			f.Cols = append(f.Cols, kf)
			c.Count("huge_frames_with_null_keys", 1)
		}
	}
	if f == nil && c.No%200 == 51 {
		// very wide keys: dozens of bool columns whose rows differ in a single, late column
		class = "many-bool-columns"
		ncols := 60 + rng.Intn(75)
		rows = 2 + rng.Intn(40)
		base := make([]bool, ncols)
		for i := range base {
			base[i] = rng.Intn(2) == 0
		}
		f = &model.Frame{}
		flip := make([]int, rows)
		for r := range flip {
			flip[r] = -1
			if rng.Intn(4) > 0 {
				flip[r] = ncols - 1 - rng.Intn(1+ncols/3) // towards the end
			}
		}
		for i := 0; i < ncols; i++ {
			col := model.NewCol(fmt.Sprintf("flag%03d", i), model.KBool, rows)
			for r := 0; r < rows; r++ {
				col.B[r] = base[i] != (flip[r] == i)
			}
			f.Cols = append(f.Cols, col)
		}
	}
	if f == nil && c.No%7 == 3 {
		if cs := findCollisions(c); len(cs.intPairs)+len(cs.strPairs) > 0 {
			class = "collision"
			n := []int{4, 8, 16, 64, 500, 4000}[rng.Intn(6)]
			ki := model.NewCol("ki", model.KInt, n)
			ks := model.NewCol("ks", model.KString, n)
			// a handful of colliding pairs plus filler keys
			var ipool []int
			var spool []string
			for k := 0; k < 3; k++ {
				if len(cs.intPairs) > 0 {
					p := cs.intPairs[rng.Intn(len(cs.intPairs))]
					ipool = append(ipool, p[0], p[1])
				}
				if len(cs.strPairs) > 0 {
					p := cs.strPairs[rng.Intn(len(cs.strPairs))]
					spool = append(spool, p[0], p[1])
				}
			}
			fill := rng.Intn(3)
			for k := 0; k < fill*n/4; k++ {
				ipool = append(ipool, rng.Intn(1000))
				spool = append(spool, fmt.Sprintf("f%d", rng.Intn(1000)))
			}
			if len(ipool) == 0 {
				ipool = []int{1, 2}
			}
			if len(spool) == 0 {
				spool = []string{"a", "b"}
			}
			for i := 0; i < n; i++ {
				ki.I[i] = ipool[rng.Intn(len(ipool))]
				ks.S[i] = model.StrP(spool[rng.Intn(len(spool))])
			}
			f = &model.Frame{Cols: []*model.Col{ki, ks}}
			c.Count("collision_frames", 1)
			c.Max("collision_pairs_available_in_process", int64(len(cs.intPairs)+len(cs.strPairs)))
		}
	}
	if f == nil {
		o := model.GenOpts{Rows: rows, MinCols: 1, MaxCols: 4, NoCR: true}
		if rows > 5000 {
			// null enum keys all hash alike when nulls are not equal to each other: qframe then probes quadratically
			// (a performance trait, not part of the property); keep nulls to the smaller frames
			o.NoNull = true
		}
		switch rng.Intn(4) {
		case 0:
			o.LowCard = 1 + rng.Intn(3)
		case 1:
			o.LowCard = 2 + rng.Intn(30)
		case 2:
			o.LowCard = 1 + rows/(1+rng.Intn(8)) // many classes: crosses table growth steps
			o.MaxEnumCard = 200
		}
		f = model.GenFrame(rng, o)
		if rng.Intn(5) == 0 {
			// swapped multi-column values: (1,2) vs (2,1)
			class = "swapped"
			p := model.NewCol("p1", model.KInt, rows)
			q := model.NewCol("p2", model.KInt, rows)
			m := 2 + rng.Intn(3)
			for i := 0; i < rows; i++ {
				p.I[i], q.I[i] = rng.Intn(m), rng.Intn(m)
			}
			f.Cols = append(f.Cols, p, q)
		}
		if rng.Intn(4) == 0 {
			// float key with signed zeros and NaN payloads
			class = "zeros-nans"
			z := model.NewCol("fz", model.KFloat, rows)
			pool := []float64{0, math.Copysign(0, -1), 1, math.NaN(), model.NaNPayload, model.NaNNeg, -1, math.Inf(1)}
			for i := range z.F {
				z.F[i] = pool[rng.Intn(len(pool))]
			}
			f.Cols = append(f.Cols, z)
		}
	}
	n := f.Len()
	// value columns for built-in aggregations
	vi := model.GenCol(rng, "vi", model.KInt, n, &model.GenOpts{SmallInts: true})
	vf := model.GenCol(rng, "vf", model.KFloat, n, &model.GenOpts{ExactFloat: true, NoNull: true})
	if rng.Intn(5) == 0 && n > 0 {
		// values on which the order of evaluation or a careless comparison shows: NaN, infinities, signed zeros
		special := []float64{math.NaN(), math.NaN(), math.Inf(1), math.Inf(-1), 0, math.Copysign(0, -1)}
		p := []float64{0.02, 0.1, 0.4}[rng.Intn(3)]
		for i := range vf.F {
			if rng.Float64() < p {
				vf.F[i] = special[rng.Intn(len(special))]
			}
		}
	}
	vb := model.GenCol(rng, "vb", model.KBool, n, &model.GenOpts{})
	f.Cols = append(f.Cols, vi, vf, vb)
	if withID {
		id := model.NewCol(model.IDCol, model.KInt, n)
		p := rng.Perm(n)
		for i := range id.I {
			id.I[i] = 100 + p[i]
		}
		f.Cols = append(f.Cols, id)
	}
	root, err := model.MakeRootFrom(rng, f, 4, false)
	if err == nil && n <= 5000 && rng.Intn(6) == 0 {
		if cr := coarsenedRoot(rng, root); cr != nil {
			return cr, class + "+coarsened", nil
		}
	}
	return root, class, err
}

// coarsenedRoot derives a frame whose history could leave stale knowledge behind: the frame is sorted on a key column
// and/or reduced by Distinct, and then that key column is overwritten with a coarser value (so that rows which were
// in order, or distinct, are not any more). The shadow is re-observed through the API.
func coarsenedRoot(rng *rand.Rand, root *model.Root) *model.Root {
	sh := root.Shadow
	var cands []*model.Col
	for _, col := range sh.Cols {
		if col.Name != model.IDCol && col.Name != "vi" && col.Name != "vf" && col.Name != "vb" {
			cands = append(cands, col)
		}
	}
	if len(cands) == 0 || sh.Len() == 0 {
		return nil
	}
	k := cands[rng.Intn(len(cands))]
	q := root.QF
	var ops []string
	pv, _ := fw.Guard(func() {
		switch rng.Intn(4) {
		case 0:
			q = q.Sort(qframe.Order{Column: k.Name})
			ops = append(ops, "Sort("+k.Name+")")
		case 1:
			q = q.Distinct(groupby.Null(rng.Intn(2) == 0))
			ops = append(ops, "Distinct()")
		case 2:
			q = q.Sort(qframe.Order{Column: k.Name, Reverse: true}).Distinct(groupby.Columns(k.Name), groupby.Null(true))
			ops = append(ops, "Sort("+k.Name+" desc).Distinct("+k.Name+")")
		default:
			q = q.Sort(qframe.Order{Column: k.Name}).Slice(0, q.Len()-q.Len()/5)
			ops = append(ops, "Sort("+k.Name+").Slice")
		}
		var fn interface{}
		switch k.Kind {
		case model.KInt:
			fn = func(x int) int { return ((x % 3) + 3) % 3 }
		case model.KFloat:
			fn = func(x float64) float64 {
				if math.IsNaN(x) || math.IsInf(x, 0) {
					return x
				}
				return math.Mod(math.Trunc(math.Abs(x)), 2)
			}
		case model.KBool:
			fn = func(x bool) bool { return true }
		default:
			fn = func(x *string) *string {
				if x == nil || len(*x) == 0 {
					return x
				}
				s := (*x)[:1]
				return &s
			}
		}
		q = q.Apply(qframe.Instruction{Fn: fn, DstCol: k.Name, SrcCol1: k.Name})
		ops = append(ops, "Apply(coarser "+k.Name+")")
	})
	if pv != nil || q.Err != nil {
		return nil
	}
	obs, err := model.Observe(q)
	if err != nil {
		return nil
	}
	meta := model.MetaOf(sh)
	delete(meta, k.Name)
	meta.Apply(obs)
	return &model.Root{Shadow: obs, QF: q, Path: root.Path, Ops: append(append([]string{}, root.Ops...), ops...), Shape: model.IndexShape(q)}
}

func pickKeys(rng *rand.Rand, sh *model.Frame, allowNone bool) []string {
	if sh.Col("flag000") != nil && rng.Intn(4) > 0 {
		// the wide class: (nearly) all flag columns together form the key
		var keys []string
		for _, col := range sh.Cols {
			if strings.HasPrefix(col.Name, "flag") {
				keys = append(keys, col.Name)
			}
		}
		if rng.Intn(2) == 0 {
			rng.Shuffle(len(keys), func(i, j int) { keys[i], keys[j] = keys[j], keys[i] })
		}
		return keys
	}
	var cands []string
	for _, col := range sh.Cols {
		if col.Name != model.IDCol && col.Name != "vi" && col.Name != "vf" && col.Name != "vb" {
			cands = append(cands, col.Name)
		}
	}
	if rng.Intn(8) == 0 {
		cands = append(cands, "vb", "vi")
	}
	if allowNone && rng.Intn(8) == 0 || len(cands) == 0 {
		return nil
	}
	rng.Shuffle(len(cands), func(i, j int) { cands[i], cands[j] = cands[j], cands[i] })
	k := 1 + rng.Intn(len(cands))
	if k > 3 && rng.Intn(3) > 0 {
		k = 1 + rng.Intn(2)
	}
	return cands[:k]
}

// ---------------------------------------------------------------- C04

type aggSpec struct {
	col  string
	as   string
	name string // built-in name or "user"
	kind model.Kind
	logI [][]int
	logF [][]float64
	logB [][]bool
	logS [][]*string
}

func (a *aggSpec) real() qframe.Aggregation {
	ag := qframe.Aggregation{Column: a.col, As: a.as}
	if a.name != "user" {
		ag.Fn = a.name
		return ag
	}
	switch a.kind {
	case model.KInt:
		ag.Fn = func(v []int) int {
			a.logI = append(a.logI, append([]int(nil), v...))
			r := 0
			for i, x := range v {
				r = r*31 + x + i
			}
			// a legal but hostile callback: it scribbles over the slice it was handed
			for i := range v {
				v[i] = -7777
			}
			return r
		}
	case model.KFloat:
		ag.Fn = func(v []float64) float64 {
			a.logF = append(a.logF, append([]float64(nil), v...))
			r := 0.0
			for _, x := range v {
				if !math.IsNaN(x) && !math.IsInf(x, 0) && math.Abs(x) < 1e6 {
					r += math.Trunc(x*8) / 8
				}
			}
			sort.Float64s(v)
			for i := range v {
				v[i] = -1
			}
			return r
		}
	case model.KBool:
		ag.Fn = func(v []bool) bool {
			a.logB = append(a.logB, append([]bool(nil), v...))
			r := false
			for _, x := range v {
				r = r != x
			}
			for i := range v {
				v[i] = !v[i]
			}
			return r
		}
	default:
		ag.Fn = func(v []*string) *string {
			cp := make([]*string, len(v))
			for i, s := range v {
				if s != nil {
					cp[i] = model.StrP(*s)
				}
			}
			a.logS = append(a.logS, cp)
			var sb strings.Builder
			for _, s := range cp {
				if s == nil {
					sb.WriteString("~")
				} else {
					sb.WriteString(*s)
				}
				if sb.Len() > 50 {
					break
				}
			}
			for i := range v {
				v[i] = nil
			}
			if len(cp) > 0 && cp[0] == nil {
				return nil
			}
			return model.StrP(sb.String())
		}
	}
	return ag
}

// expected computes the reference value of the aggregation over the class rows (frame order).
func (a *aggSpec) expected(sh *model.Frame, rows []int, out *model.Col, i int) {
	src := sh.Col(a.col)
	switch a.name {
	case "count":
		out.I[i] = len(rows)
	case "sum", "min", "max", "avg":
		if src.Kind == model.KInt {
			r := src.I[rows[0]]
			if a.name == "sum" {
				r = 0
			}
			for k, x := range rows {
				v := src.I[x]
				switch a.name {
				case "sum":
					r += v
				case "min":
					if k > 0 && v < r {
						r = v
					}
				case "max":
					if k > 0 && v > r {
						r = v
					}
				}
			}
			out.I[i] = r
		} else {
			r := src.F[rows[0]]
			if a.name == "sum" || a.name == "avg" {
				r = 0
			}
			for k, x := range rows {
				v := src.F[x]
				switch a.name {
				case "sum", "avg":
					r += v
				case "min":
					if k > 0 {
						r = math.Min(r, v)
					}
				case "max":
					if k > 0 {
						r = math.Max(r, v)
					}
				}
			}
			if a.name == "avg" {
				r = r / float64(len(rows))
			}
			out.F[i] = r
		}
	case "majority":
		t, fl := 0, 0
		for _, x := range rows {
			if src.B[x] {
				t++
			} else {
				fl++
			}
		}
		out.B[i] = t > fl
	case "user":
		switch src.Kind {
		case model.KInt:
			r := 0
			for k, x := range rows {
				r = r*31 + src.I[x] + k
			}
			out.I[i] = r
		case model.KFloat:
			r := 0.0
			for _, x := range rows {
				v := src.F[x]
				if !math.IsNaN(v) && !math.IsInf(v, 0) && math.Abs(v) < 1e6 {
					r += math.Trunc(v*8) / 8
				}
			}
			out.F[i] = r
		case model.KBool:
			r := false
			for _, x := range rows {
				r = r != src.B[x]
			}
			out.B[i] = r
		default:
			var sb strings.Builder
			for _, x := range rows {
				if src.S[x] == nil {
					sb.WriteString("~")
				} else {
					sb.WriteString(*src.S[x])
				}
				if sb.Len() > 50 {
					break
				}
			}
			if src.S[rows[0]] == nil {
				out.S[i] = nil
			} else {
				out.S[i] = model.StrP(sb.String())
			}
		}
	}
}

func (a *aggSpec) outKind(sh *model.Frame) model.Kind {
	if a.name == "count" {
		return model.KInt
	}
	k := sh.Col(a.col).Kind
	if k == model.KEnum {
		return model.KString
	}
	return k
}

func (a *aggSpec) outName() string {
	if a.as != "" {
		return a.as
	}
	return a.col
}

func genAggs(rng *rand.Rand, sh *model.Frame, keys []string) []*aggSpec {
	used := map[string]bool{}
	for _, k := range keys {
		used[k] = true
	}
	var aggs []*aggSpec
	hasID := sh.Col(model.IDCol) != nil
	if hasID {
		aggs = append(aggs, &aggSpec{col: model.IDCol, name: "user", kind: model.KInt})
		used[model.IDCol] = true
	}
	n := rng.Intn(4)
	for i := 0; i < n; i++ {
		col := sh.Cols[rng.Intn(len(sh.Cols))]
		a := &aggSpec{col: col.Name, kind: col.Kind}
		if rng.Intn(3) == 0 || used[col.Name] {
			a.as = fmt.Sprintf("agg%d", i)
		}
		if used[a.outName()] {
			continue
		}
		switch {
		case rng.Intn(5) == 0:
			a.name = "count"
		case col.Name == "vi":
			a.name = []string{"sum", "min", "max", "user"}[rng.Intn(4)]
		case col.Name == "vf":
			a.name = []string{"sum", "min", "max", "avg", "user"}[rng.Intn(5)]
		case col.Name == "vb":
			a.name = []string{"majority", "user"}[rng.Intn(2)]
		case col.Kind == model.KInt:
			a.name = []string{"min", "max", "user"}[rng.Intn(3)]
		default:
			a.name = "user"
		}
		used[a.outName()] = true
		aggs = append(aggs, a)
	}
	return aggs
}

func classIDKeys(sh *model.Frame, classes [][]int) map[string]int {
	ids := sh.IDs()
	m := make(map[string]int, len(classes))
	var sb strings.Builder
	for ci, cl := range classes {
		sb.Reset()
		for _, r := range cl {
			fmt.Fprintf(&sb, "%d,", ids[r])
		}
		m[sb.String()] = ci
	}
	return m
}

func seqKey(ids []int) string {
	var sb strings.Builder
	for _, id := range ids {
		fmt.Fprintf(&sb, "%d,", id)
	}
	return sb.String()
}

func runC04(c *fw.Case) {
	rng := c.Rng
	root, class, err := groupRoot(c, true)
	if err != nil {
		c.Count("root_build_failed", 1)
		return
	}
	sh := root.Shadow
	c.Count("shape:"+root.Shape, 1)
	c.Count("class:"+class, 1)
	var confs []string
	c.DescribeLazy(func() interface{} {
		d := root.Describe(30)
		d["class"] = class
		d["groupby"] = confs
		return d
	})
	for k := 0; k < 3; k++ {
		keys := pickKeys(rng, sh, true)
		nullEq := rng.Intn(2) == 0
		if len(keys) == 0 && sh.Len() == 0 {
			continue
		}
		aggs := genAggs(rng, sh, keys)
		desc := fmt.Sprintf("GroupBy(Columns(%q), Null(%v))", keys, nullEq)
		for _, a := range aggs {
			desc += fmt.Sprintf(" agg{%s %s as %q}", a.name, a.col, a.as)
		}
		confs = append(confs, desc)
		classes := model.Partition(sh, keys, nullEq)
		byKey := classIDKeys(sh, classes)
		c.Eval(1)
		keyKinds := ""
		for _, kc := range keys {
			keyKinds += sh.Col(kc).Kind.String() + ","
		}
		vkey := fmt.Sprintf("%s:null=%v:%s", class, nullEq, keyKinds)

		var g qframe.Grouper
		// the key list is the front part of a longer slice of the caller's (as when key lists are built by appending):
		// what lies behind it belongs to the caller
		backing := make([]string, len(keys), len(keys)+3)
		copy(backing, keys)
		tail := backing[len(keys):cap(backing)]
		for i := range tail {
			tail[i] = "callers-own-entry"
		}
		keyArg := backing[:len(keys)]
		defer func(desc string) {
			for _, s := range tail {
				if s != "callers-own-entry" {
					c.Fail("argument-changed", "%s: the caller's slice behind the key list was overwritten with %q", desc, tail)
					break
				}
			}
		}(desc)
		if !c.GuardFail("groupby", desc, func() {
			g = root.QF.GroupBy(groupby.Columns(keyArg...), groupby.Null(nullEq))
		}) {
			continue
		}
		if g.Err != nil {
			c.Fail("err", "%s rejected: %v", desc, g.Err)
			continue
		}
		c.Max("relocations", int64(g.Stats.RelocationCount))
		c.Count("insert_collisions", int64(g.Stats.InsertCollisions))
		c.Count(fmt.Sprintf("relocation_count:%d", g.Stats.RelocationCount), 1)

		// sometimes the same Grouper first serves an aggregation made of built-ins only (it must not disturb later use)
		if rng.Intn(3) == 0 && sh.Len() > 0 {
			var pre qframe.QFrame
			if !c.GuardFail("aggregate-builtin", desc+".Aggregate(count, sum)", func() {
				pre = g.Aggregate(qframe.Aggregation{Fn: "count", Column: "vb", As: "n"}, qframe.Aggregation{Fn: "sum", Column: "vi", As: "s"}, qframe.Aggregation{Fn: "max", Column: "vf", As: "m"})
			}) {
				continue
			}
			if pre.Err == nil && pre.Len() != len(classes) {
				c.Fail("agg-rows:"+vkey, "%s: built-in aggregate has %d rows, reference has %d classes", desc, pre.Len(), len(classes))
				continue
			}
			c.Count("groupers_reused_after_builtin_aggregate", 1)
		}
		// --- QFrames: exactly the classes
		var frames []qframe.QFrame
		var ferr error
		if !c.GuardFail("qframes", desc+".QFrames()", func() { frames, ferr = g.QFrames() }) {
			continue
		}
		if ferr != nil {
			c.Fail("err", "%s QFrames error: %v", desc, ferr)
			continue
		}
		seenClass := map[int]bool{}
		bad := false
		if len(classes) > 3000 {
			// too many groups to observe each one: the recording aggregation below still sees every group's rows
			total := 0
			for _, gf := range frames {
				total += gf.Len()
			}
			if total != sh.Len() {
				c.Fail("groups-rows:"+vkey, "%s: the groups hold %d rows in total, the frame has %d", desc, total, sh.Len())
				bad = true
			}
			frames = nil
			for ci := range classes {
				seenClass[ci] = true
			}
		}
		for gi, gf := range frames {
			gs, oerr := model.ObserveGuard(gf)
			if oerr != nil {
				c.Fail("observe", "%s: group frame %d: %v", desc, gi, oerr)
				bad = true
				break
			}
			ci, ok := byKey[seqKey(gs.IDs())]
			if !ok {
				c.Fail("groups:"+vkey, "%s: QFrames()[%d] has ids %v which is not a key class of the reference partition (in frame order); %d reference classes", desc, gi, trunc(gs.IDs()), len(classes))
				bad = true
				break
			}
			if seenClass[ci] {
				c.Fail("groups-dup:"+vkey, "%s: class with ids %v returned twice", desc, trunc(gs.IDs()))
				bad = true
				break
			}
			seenClass[ci] = true
			if d := model.Diff(sh.Take(classes[ci]), gs); d != "" {
				c.Fail("group-rows:"+vkey, "%s: group %d differs from the input rows: %s", desc, gi, d)
				bad = true
				break
			}
		}
		if !bad && frames != nil && len(frames) != len(classes) {
			c.Fail("groups-count:"+vkey, "%s: %d groups returned, reference partition has %d classes", desc, len(frames), len(classes))
			bad = true
		}
		if bad {
			continue
		}
		multi := false
		for _, cl := range classes {
			if len(cl) > 1 {
				multi = true
				break
			}
		}
		if len(classes) >= 2 && multi {
			c.Nontrivial(keys, nullEq, idKey(sh.IDs()))
			c.Count("nontrivial_groupings", 1)
		}
		if class == "collision" {
			c.Count("collision_groupings_checked", 1)
		}

		// --- Aggregate
		reals := make([]qframe.Aggregation, len(aggs))
		for i, a := range aggs {
			reals[i] = a.real()
		}
		var res qframe.QFrame
		if !c.GuardFail("aggregate", desc+".Aggregate", func() { res = g.Aggregate(reals...) }) {
			continue
		}
		if res.Err != nil {
			c.Fail("err", "%s Aggregate rejected: %v", desc, res.Err)
			continue
		}
		got, oerr := model.ObserveGuard(res)
		if oerr != nil {
			c.Fail("observe", "%s: aggregate result: %v", desc, oerr)
			continue
		}
		// schema
		wantNames := append([]string{}, keys...)
		for _, a := range aggs {
			wantNames = append(wantNames, a.outName())
		}
		if fmt.Sprint(got.Names()) != fmt.Sprint(wantNames) {
			c.Fail("agg-schema", "%s: result columns %q, want %q", desc, got.Names(), wantNames)
			continue
		}
		if got.Len() != len(classes) {
			c.Fail("agg-rows:"+vkey, "%s: aggregate has %d rows, reference has %d classes", desc, got.Len(), len(classes))
			continue
		}
		// identify the class of every result row through the recorded __id slices
		idAgg := aggs[0]
		if len(idAgg.logI) != got.Len() {
			c.Fail("agg-calls", "%s: user aggregation called %d times for %d groups", desc, len(idAgg.logI), got.Len())
			continue
		}
		rowClass := make([]int, got.Len())
		okAll := true
		used := map[int]bool{}
		for i, ids := range idAgg.logI {
			ci, ok := byKey[seqKey(ids)]
			if !ok || used[ci] {
				c.Fail("agg-input:"+vkey, "%s: aggregation call %d received ids %v: not (once) a key class in frame order", desc, i, trunc(ids))
				okAll = false
				break
			}
			used[ci] = true
			rowClass[i] = ci
		}
		if !okAll {
			continue
		}
		// expected frame in the result's own group order
		want := &model.Frame{}
		for _, kc := range keys {
			want.Cols = append(want.Cols, model.NewCol(kc, sh.Col(kc).Kind, got.Len()))
		}
		for _, a := range aggs {
			want.Cols = append(want.Cols, model.NewCol(a.outName(), a.outKind(sh), got.Len()))
		}
		for i, ci := range rowClass {
			rows := classes[ci]
			for ki, kc := range keys {
				src := sh.Col(kc)
				// the key cell may be that of any row of the class (0.0 / -0.0, NaN payloads)
				gotCol := got.Cols[ki]
				match := rows[0]
				if gotCol.Kind == src.Kind {
					for _, r := range rows {
						if model.CellEq(src, r, gotCol, i) {
							match = r
							break
						}
					}
				}
				want.Cols[ki].Set(i, src, match)
			}
			for ai, a := range aggs {
				a.expected(sh, rows, want.Cols[len(keys)+ai], i)
			}
		}
		if d := model.Diff(want, got); d != "" {
			c.Fail("agg-value:"+vkey, "%s: aggregate differs from reference: %s", desc, d)
			continue
		}
		// the exact inputs of the other recording aggregations
		for _, a := range aggs[1:] {
			if a.name != "user" {
				continue
			}
			src := sh.Col(a.col)
			var nlog int
			switch src.Kind {
			case model.KInt:
				nlog = len(a.logI)
			case model.KFloat:
				nlog = len(a.logF)
			case model.KBool:
				nlog = len(a.logB)
			default:
				nlog = len(a.logS)
			}
			if nlog != got.Len() {
				c.Fail("agg-calls", "%s: user aggregation on %q called %d times for %d groups", desc, a.col, nlog, got.Len())
				break
			}
			for i, ci := range rowClass {
				rows := classes[ci]
				tmp := src.Take(rows)
				logged := model.NewCol(src.Name, src.Kind, 0)
				switch src.Kind {
				case model.KInt:
					logged.I = a.logI[i]
				case model.KFloat:
					logged.F = a.logF[i]
				case model.KBool:
					logged.B = a.logB[i]
				default:
					logged.S = a.logS[i]
				}
				if logged.Len() != tmp.Len() {
					c.Fail("agg-input:"+vkey, "%s: aggregation on %q group %d received %d values, class has %d", desc, a.col, i, logged.Len(), tmp.Len())
					okAll = false
					break
				}
				for r := 0; r < tmp.Len(); r++ {
					if !model.CellEq(tmp, r, logged, r) {
						c.Fail("agg-input:"+vkey, "%s: aggregation on %q group %d value %d: got %s, want %s", desc, a.col, i, r, logged.CellString(r), tmp.CellString(r))
						okAll = false
						break
					}
				}
				if !okAll {
					break
				}
			}
			if !okAll {
				break
			}
			c.Count("recorded_aggregation_inputs_checked", int64(got.Len()))
		}
	}
}

// ---------------------------------------------------------------- C05

func runC05(c *fw.Case) {
	rng := c.Rng
	withID := rng.Intn(4) > 0
	root, class, err := groupRoot(c, withID)
	if err != nil {
		c.Count("root_build_failed", 1)
		return
	}
	sh := root.Shadow
	c.Count("shape:"+root.Shape, 1)
	c.Count("class:"+class, 1)
	var confs []string
	c.DescribeLazy(func() interface{} {
		d := root.Describe(30)
		d["class"] = class
		d["distinct"] = confs
		return d
	})
	allCols := sh.Names()
	for k := 0; k < 4; k++ {
		keys := pickKeys(rng, sh, true)
		if len(keys) >= 1 && len(keys) <= 6 && rng.Intn(6) == 0 {
			// a key column named more than once: the key is the same set of columns
			dup := keys[rng.Intn(len(keys))]
			at := rng.Intn(len(keys) + 1)
			if rng.Intn(2) == 0 {
				for i, k := range keys {
					if k == dup {
						at = i + 1 // directly after its first occurrence, before the remaining columns
					}
				}
			}
			keys = append(append(append([]string{}, keys[:at]...), dup), keys[at:]...)
			c.Count("key_lists_naming_a_column_twice", 1)
		}
		nullEq := rng.Intn(2) == 0
		desc := fmt.Sprintf("Distinct(Columns(%q), Null(%v))", keys, nullEq)
		confs = append(confs, desc)
		effKeys := keys
		if len(keys) == 0 {
			effKeys = allCols
		}
		classes := model.Partition(sh, effKeys, nullEq)
		keyKinds := ""
		for _, kc := range effKeys {
			keyKinds += sh.Col(kc).Kind.String() + ","
		}
		if len(keyKinds) > 40 {
			keyKinds = keyKinds[:40]
		}
		vkey := fmt.Sprintf("%s:null=%v:%s", class, nullEq, keyKinds)
		c.Eval(1)
		var res qframe.QFrame
		if !c.GuardFail("distinct", desc, func() {
			res = root.QF.Distinct(groupby.Columns(keys...), groupby.Null(nullEq))
		}) {
			continue
		}
		if res.Err != nil {
			c.Fail("err", "%s rejected: %v", desc, res.Err)
			continue
		}
		got, oerr := model.ObserveGuard(res)
		if oerr != nil {
			c.Fail("observe", "%s: %v", desc, oerr)
			continue
		}
		if fmt.Sprint(got.Names()) != fmt.Sprint(sh.Names()) {
			c.Fail("schema", "%s: columns changed from %q to %q", desc, sh.Names(), got.Names())
			continue
		}
		// class lookup for every input row
		rowClass := make([]int, sh.Len())
		for ci, cl := range classes {
			for _, r := range cl {
				rowClass[r] = ci
			}
		}
		seen := map[int]bool{}
		bad := false
		if withID {
			pos := rowsByID(sh)
			for r, id := range got.IDs() {
				p, ok := pos[id]
				if !ok {
					c.Fail("not-a-row:"+vkey, "%s: result row %d has id %d which is not in the input", desc, r, id)
					bad = true
					break
				}
				for ci, col := range sh.Cols {
					if got.Cols[ci].Kind != col.Kind || !model.CellEq(col, p, got.Cols[ci], r) {
						c.Fail("row-torn:"+vkey, "%s: result row with id %d differs from the input row in column %q", desc, id, col.Name)
						bad = true
						break
					}
				}
				if bad {
					break
				}
				if seen[rowClass[p]] {
					c.Fail("dup-class:"+vkey, "%s: two result rows for the key class of id %d", desc, id)
					bad = true
					break
				}
				seen[rowClass[p]] = true
			}
		} else {
			// no id column: match every result row to an input row bit-exactly
			exact := func(f *model.Frame, r int) string {
				var sb strings.Builder
				for _, col := range f.Cols {
					if col.Kind == model.KFloat && !col.IsNull(r) {
						fmt.Fprintf(&sb, "%x|", math.Float64bits(col.F[r]))
					} else {
						sb.WriteString(col.CellString(r))
						sb.WriteByte('|')
					}
				}
				return sb.String()
			}
			inputRows := map[string][]int{}
			for p := 0; p < sh.Len(); p++ {
				k := exact(sh, p)
				inputRows[k] = append(inputRows[k], p)
			}
			for r := 0; r < got.Len() && !bad; r++ {
				cands := inputRows[exact(got, r)]
				if len(cands) == 0 {
					c.Fail("not-a-row:"+vkey, "%s: result row %d equals no input row", desc, r)
					bad = true
					break
				}
				found := false
				for _, p := range cands {
					if !seen[rowClass[p]] {
						seen[rowClass[p]] = true
						found = true
						break
					}
				}
				if !found {
					c.Fail("dup-class:"+vkey, "%s: result row %d is a second representative of its key class", desc, r)
					bad = true
				}
			}
		}
		if bad {
			continue
		}
		if len(seen) != len(classes) || got.Len() != len(classes) {
			c.Fail("class-count:"+vkey, "%s: result has %d rows covering %d classes, reference partition has %d classes (input %d rows)", desc, got.Len(), len(seen), len(classes), sh.Len())
			continue
		}
		multi := false
		for _, cl := range classes {
			if len(cl) > 1 {
				multi = true
				break
			}
		}
		if len(classes) >= 2 && multi {
			c.Nontrivial(keys, nullEq, withID, sh.Len(), idKey(sh.IDs()), len(classes))
			c.Count("nontrivial_distincts", 1)
		}
		if class == "collision" {
			c.Count("collision_distincts_checked", 1)
		}
	}
}
