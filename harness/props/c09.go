package props

import (
	"bytes"
	stdcsv "encoding/csv"
	"encoding/json"
	"fmt"
	"io"
	"math"
	"math/rand"
	"strconv"
	"strings"
	"unicode/utf8"

	"github.com/tobgu/qframe"
	qcsv "github.com/tobgu/qframe/config/csv"
	"github.com/tobgu/qframe/config/groupby"
	"github.com/tobgu/qframe/types"

	"qverif/fw"
	"qverif/hooks"
	"qverif/model"
)

func init() {
	fw.Register(&fw.Property{
		ID:    "C09",
		Level: "exploration",
		Rule: "case = one derived frame (physical != logical order) on which all observation channels are cross-checked: Len, view Len, ItemAt vs Slice, ToCSV re-parsed by encoding/csv, ToJSON re-parsed token-wise by encoding/json, String() re-computed from the documented layout; " +
			"Equals: reflexive, symmetric, transitive over {frame, rebuild via New, rebuild via ReadCSV}, and false after exactly one changed cell / name / column order / type (int<->float, string<->enum); " +
			"the same random operation (Filter, Sort with id tie-break, Slice, Select, Distinct projected on its keys) applied to the frame and its rebuild must give Equal results; " +
			"evaluation = one channel comparison or one Equals verdict; non-trivial = frame with non-identity index and >=2 column types; distinct by frame content",
		Assumptions: []string{
			"strings contain no CR (encoding/csv normalises CRLF inside quoted fields) and floats no infinities (not representable in JSON) in this check; C13/C14/C16 cover those",
			"columns of the typeless zero-row kind are outside the property; order/strictness of derived enums is not carried by a rebuilt frame, so derived enums are not used as sort keys in the same-results sub-check",
		},
		Stages:   stages(10000, 1200000, 0, 0),
		RunCase:  runC09,
		Conclude: shapeConclude(40),
	})
}

func fixLen(s, pad string, n int) string {
	if len(s) > n {
		return s[:n-3] + "..."
	}
	if len(s) < n {
		return strings.Repeat(pad, n-len(s)) + s
	}
	return s
}

// expectedString recomputes QFrame.String() from the shadow following the documented layout.
func expectedString(sh *model.Frame) string {
	var lines []string
	widths := make([]int, len(sh.Cols))
	row := make([]string, len(sh.Cols))
	for i, col := range sh.Cols {
		h := col.Name + "(" + col.Kind.String()[:1] + ")"
		widths[i] = len(h)
		if widths[i] < 5 {
			widths[i] = 5
		}
		row[i] = fixLen(h, " ", widths[i])
	}
	lines = append(lines, strings.Join(row, " "))
	for i := range sh.Cols {
		row[i] = fixLen("", "-", widths[i])
	}
	lines = append(lines, strings.Join(row, " "))
	n := sh.Len()
	for r := 0; r < n && r < 50; r++ {
		for i, col := range sh.Cols {
			var s string
			switch col.Kind {
			case model.KInt:
				s = strconv.Itoa(col.I[r])
			case model.KFloat:
				if math.IsNaN(col.F[r]) {
					s = "null"
				} else {
					s = strconv.FormatFloat(col.F[r], 'f', -1, 64)
				}
			case model.KBool:
				s = strconv.FormatBool(col.B[r])
			default:
				if col.S[r] == nil {
					s = "null"
				} else {
					s = *col.S[r]
				}
			}
			row[i] = fixLen(s, " ", widths[i])
		}
		lines = append(lines, strings.Join(row, " "))
	}
	if n > 50 {
		lines = append(lines, "... printout truncated ...")
	}
	lines = append(lines, fmt.Sprintf("\nDims = %d x %d", len(sh.Cols), n))
	return strings.Join(lines, "\n")
}

// csvCellIs reports whether a CSV field denotes cell r of col.
func csvCellIs(field string, col *model.Col, r int) bool {
	switch col.Kind {
	case model.KInt:
		v, e := strconv.Atoi(field)
		return e == nil && v == col.I[r]
	case model.KFloat:
		if math.IsNaN(col.F[r]) {
			return field == ""
		}
		v, e := strconv.ParseFloat(field, 64)
		return e == nil && math.Float64bits(v) == math.Float64bits(col.F[r])
	case model.KBool:
		v, e := strconv.ParseBool(field)
		return e == nil && v == col.B[r]
	}
	if col.S[r] == nil {
		return field == ""
	}
	return field == *col.S[r]
}

// rebuildNew builds a fresh frame (identity index, own storage) from a shadow.
func rebuildNew(sh *model.Frame) qframe.QFrame {
	return model.BuildNew(nil, sh)
}

func checkChannels(c *fw.Case, root *model.Root) {
	qf, sh := root.QF, root.Shadow
	n := sh.Len()
	c.Eval(1)
	if qf.Len() != n {
		c.Fail("len", "Len()=%d but views hold %d rows", qf.Len(), n)
	}
	// ItemAt vs Slice
	for _, col := range sh.Cols {
		c.Eval(1)
		ok := c.GuardFail("itemat", "ItemAt on "+col.Name, func() {
			step := 1
			if n > 400 {
				step = n / 200
			}
			switch col.Kind {
			case model.KInt:
				v := qf.MustIntView(col.Name)
				if v.Len() != n {
					c.Fail("view-len", "IntView(%q).Len()=%d, want %d", col.Name, v.Len(), n)
					return
				}
				for i := 0; i < n; i += step {
					if v.ItemAt(i) != col.I[i] {
						c.Fail("itemat-vs-slice:int", "IntView(%q).ItemAt(%d)=%d but Slice()[%d]=%d", col.Name, i, v.ItemAt(i), i, col.I[i])
						return
					}
				}
			case model.KFloat:
				v := qf.MustFloatView(col.Name)
				if v.Len() != n {
					c.Fail("view-len", "FloatView(%q).Len()=%d, want %d", col.Name, v.Len(), n)
					return
				}
				for i := 0; i < n; i += step {
					a, b := v.ItemAt(i), col.F[i]
					if math.Float64bits(a) != math.Float64bits(b) && !(math.IsNaN(a) && math.IsNaN(b)) {
						c.Fail("itemat-vs-slice:float", "FloatView(%q).ItemAt(%d)=%v but Slice()[%d]=%v", col.Name, i, a, i, b)
						return
					}
				}
			case model.KBool:
				v := qf.MustBoolView(col.Name)
				if v.Len() != n {
					c.Fail("view-len", "BoolView(%q).Len()=%d, want %d", col.Name, v.Len(), n)
					return
				}
				for i := 0; i < n; i += step {
					if v.ItemAt(i) != col.B[i] {
						c.Fail("itemat-vs-slice:bool", "BoolView(%q).ItemAt(%d)=%v but Slice()[%d]=%v", col.Name, i, v.ItemAt(i), i, col.B[i])
						return
					}
				}
			case model.KString:
				v := qf.MustStringView(col.Name)
				if v.Len() != n {
					c.Fail("view-len", "StringView(%q).Len()=%d, want %d", col.Name, v.Len(), n)
					return
				}
				for i := 0; i < n; i += step {
					a, b := v.ItemAt(i), col.S[i]
					if (a == nil) != (b == nil) || (a != nil && *a != *b) {
						c.Fail("itemat-vs-slice:string", "StringView(%q).ItemAt(%d) differs from Slice()[%d] (%s)", col.Name, i, i, col.CellString(i))
						return
					}
				}
			case model.KEnum:
				v := qf.MustEnumView(col.Name)
				if v.Len() != n {
					c.Fail("view-len", "EnumView(%q).Len()=%d, want %d", col.Name, v.Len(), n)
					return
				}
				for i := 0; i < n; i += step {
					a, b := v.ItemAt(i), col.S[i]
					if (a == nil) != (b == nil) || (a != nil && *a != *b) {
						c.Fail("itemat-vs-slice:enum", "EnumView(%q).ItemAt(%d) differs from Slice()[%d] (%s)", col.Name, i, i, col.CellString(i))
						return
					}
				}
			}
		})
		_ = ok
	}

	// ToCSV, re-parsed by an independent reader
	if len(sh.Cols) >= 2 {
		c.Eval(1)
		var buf bytes.Buffer
		var werr error
		if c.GuardFail("tocsv", "ToCSV", func() { werr = qf.ToCSV(&buf) }) {
			if werr != nil {
				c.Fail("tocsv-err", "ToCSV failed: %v", werr)
			} else {
				r := stdcsv.NewReader(bytes.NewReader(buf.Bytes()))
				r.FieldsPerRecord = -1
				recs, perr := r.ReadAll()
				if perr != nil {
					c.Fail("tocsv-parse", "encoding/csv cannot parse ToCSV output: %v", perr)
				} else if len(recs) != n+1 {
					c.Fail("tocsv-rows", "ToCSV wrote %d records (incl. header) for %d rows", len(recs), n)
				} else {
					bad := false
					for i, col := range sh.Cols {
						if len(recs[0]) != len(sh.Cols) || recs[0][i] != col.Name {
							c.Fail("tocsv-header", "ToCSV header %q, want %q", recs[0], sh.Names())
							bad = true
							break
						}
					}
					for r := 0; r < n && !bad; r++ {
						rec := recs[r+1]
						if len(rec) != len(sh.Cols) {
							c.Fail("tocsv-fields", "ToCSV row %d has %d fields", r, len(rec))
							break
						}
						for i, col := range sh.Cols {
							ok := true
							switch col.Kind {
							case model.KInt:
								v, e := strconv.Atoi(rec[i])
								ok = e == nil && v == col.I[r]
							case model.KFloat:
								if math.IsNaN(col.F[r]) {
									ok = rec[i] == ""
								} else {
									v, e := strconv.ParseFloat(rec[i], 64)
									ok = e == nil && math.Float64bits(v) == math.Float64bits(col.F[r])
								}
							case model.KBool:
								v, e := strconv.ParseBool(rec[i])
								ok = e == nil && v == col.B[r]
							default:
								if col.S[r] == nil {
									ok = rec[i] == ""
								} else {
									ok = rec[i] == *col.S[r]
								}
							}
							if !ok {
								c.Fail("tocsv-cell:"+col.Kind.String(), "ToCSV row %d column %q is %q but the view holds %s", r, col.Name, rec[i], col.CellString(r))
								bad = true
								break
							}
						}
					}
				}
			}
		}
	}

	// ToCSV with its options: an explicit (permuted) column order and no header; the cells are the same cells
	if len(sh.Cols) >= 2 && len(sh.Cols) <= 8 {
		c.Eval(1)
		perm := c.Rng.Perm(len(sh.Cols))
		order := make([]string, len(perm))
		for i, p := range perm {
			order[i] = sh.Cols[p].Name
		}
		header := c.Rng.Intn(2) == 0
		var buf bytes.Buffer
		var werr error
		if c.GuardFail("tocsv-columns", "ToCSV(Columns, Header)", func() { werr = qf.ToCSV(&buf, qcsv.Columns(order), qcsv.Header(header)) }) {
			if werr != nil {
				c.Fail("tocsv-columns-err", "ToCSV(Columns(%q)) failed: %v", order, werr)
			} else {
				r := stdcsv.NewReader(bytes.NewReader(buf.Bytes()))
				r.FieldsPerRecord = -1
				recs, perr := r.ReadAll()
				skip := 0
				if header {
					skip = 1
				}
				single := false // a single empty field per row is written as an empty line, which encoding/csv skips
				switch {
				case perr != nil:
					c.Fail("tocsv-columns-parse", "encoding/csv cannot parse the output of ToCSV(Columns(%q), Header(%v)): %v", order, header, perr)
				case len(recs) != n+skip && !single:
					c.Fail("tocsv-columns-rows", "ToCSV(Columns(%q), Header(%v)) wrote %d records for %d rows", order, header, len(recs), n)
				default:
					if header && fmt.Sprintf("%q", recs[0]) != fmt.Sprintf("%q", order) {
						c.Fail("tocsv-columns-header", "ToCSV(Columns(%q)) wrote the header %q", order, recs[0])
					}
					for r := 0; r < n && !c.Failed(); r++ {
						rec := recs[r+skip]
						if len(rec) != len(order) {
							c.Fail("tocsv-columns-fields", "ToCSV(Columns) row %d has %d fields", r, len(rec))
							break
						}
						for i, p := range perm {
							col := sh.Cols[p]
							if !csvCellIs(rec[i], col, r) {
								c.Fail("tocsv-columns-cell:"+col.Kind.String(), "ToCSV(Columns(%q)) row %d field %d (column %q) is %q but the view holds %s", order, r, i, col.Name, rec[i], col.CellString(r))
								break
							}
						}
					}
				}
			}
		}
		// the observation must not have changed what the other observers report
		if got := qf.ColumnNames(); fmt.Sprintf("%q", got) != fmt.Sprintf("%q", sh.Names()) {
			c.Fail("names-after-tocsv-columns", "ColumnNames() = %q after ToCSV(Columns(%q)), was %q", got, order, sh.Names())
		}
	}

	// ToJSON, re-parsed token-wise
	{
		c.Eval(1)
		var buf bytes.Buffer
		var werr error
		if c.GuardFail("tojson", "ToJSON", func() { werr = qf.ToJSON(&buf) }) {
			if werr != nil {
				c.Fail("tojson-err", "ToJSON failed: %v", werr)
			} else if msg := checkJSONAgainst(buf.Bytes(), sh); msg != "" {
				c.Fail("tojson:"+firstWord(msg), "ToJSON: %s", msg)
			}
		}
	}

	// String()
	{
		c.Eval(1)
		var s string
		if c.GuardFail("string", "String()", func() { s = qf.String() }) {
			if msg := checkStringLayout(s, sh); msg != "" {
				c.Fail("string:"+firstWord(msg), "String(): %s\n--- got\n%s\n--- layout recomputed from the views\n%s", msg, clip(s, 1500), clip(expectedString(sh), 1500))
			}
		}
	}
}

// checkStringLayout checks String() structurally: a header line, a line of dashes that fixes the column widths,
// one fixed-width line per row (at most 50) whose fields are the right-aligned cell texts (or their first
// width-3 bytes followed by "..."), the truncation marker when there are more than 50 rows and the Dims line.
// Widths, header text and padding policy are taken from the output itself, so cosmetic changes do not alarm.
func checkStringLayout(out string, sh *model.Frame) string {
	n := sh.Len()
	dims := fmt.Sprintf("\nDims = %d x %d", len(sh.Cols), n)
	if !strings.HasSuffix(out, dims) {
		return fmt.Sprintf("dims: output does not end with %q", dims)
	}
	body := strings.TrimSuffix(out, dims)
	nl1 := strings.IndexByte(body, '\n')
	if nl1 < 0 {
		return "structure: no header line"
	}
	rest := body[nl1+1:]
	nl2 := strings.IndexByte(rest, '\n')
	if nl2 < 0 {
		return "structure: no separator line"
	}
	dashes := rest[:nl2]
	rest = rest[nl2+1:]
	var widths []int
	if len(sh.Cols) > 0 {
		for _, g := range strings.Split(dashes, " ") {
			if g == "" || strings.Trim(g, "-") != "" {
				return fmt.Sprintf("structure: separator line %q is not made of dash groups", dashes)
			}
			widths = append(widths, len(g))
		}
	}
	if len(widths) != len(sh.Cols) {
		return fmt.Sprintf("columns: %d dash groups for %d columns", len(widths), len(sh.Cols))
	}
	header := body[:nl1]
	pos := 0
	for i, col := range sh.Cols {
		if pos+widths[i] > len(header) {
			return "structure: header shorter than the separator"
		}
		if !strings.Contains(header[pos:pos+widths[i]], col.Name[:minI(len(col.Name), 1)]) {
			return fmt.Sprintf("header: field %d %q does not mention column %q", i, header[pos:pos+widths[i]], col.Name)
		}
		pos += widths[i] + 1
	}
	rowLen := len(widths) - 1
	for _, w := range widths {
		rowLen += w
	}
	shown := n
	if shown > 50 {
		shown = 50
	}
	for r := 0; r < shown; r++ {
		if len(rest) < rowLen+1 {
			return fmt.Sprintf("rows: output ends before row %d", r)
		}
		line := rest[:rowLen]
		if rest[rowLen] != '\n' {
			return fmt.Sprintf("rows: row %d is not %d bytes wide", r, rowLen)
		}
		rest = rest[rowLen+1:]
		pos := 0
		for i, col := range sh.Cols {
			field := line[pos : pos+widths[i]]
			pos += widths[i] + 1
			var txt string
			switch col.Kind {
			case model.KInt:
				txt = strconv.Itoa(col.I[r])
			case model.KFloat:
				if math.IsNaN(col.F[r]) {
					txt = "null"
				} else {
					txt = strconv.FormatFloat(col.F[r], 'f', -1, 64)
				}
			case model.KBool:
				txt = strconv.FormatBool(col.B[r])
			default:
				if col.S[r] == nil {
					txt = "null"
				} else {
					txt = *col.S[r]
				}
			}
			w := widths[i]
			ok := false
			if len(txt) <= w {
				ok = strings.HasSuffix(field, txt) && strings.TrimLeft(field[:w-len(txt)], " ") == ""
			} else if w >= 3 {
				ok = field == txt[:w-3]+"..."
			}
			if !ok {
				return fmt.Sprintf("cell: row %d column %q is printed as %q, the view holds %s", r, col.Name, field, col.CellString(r))
			}
		}
	}
	marker := strings.Contains(rest, "truncated")
	if n > 50 && !marker {
		return "truncation: more than 50 rows but no truncation marker"
	}
	if n <= 50 && strings.TrimSpace(rest) != "" {
		return fmt.Sprintf("rows: unexpected text after the last row: %q", clip(rest, 80))
	}
	return ""
}

func minI(a, b int) int {
	if a < b {
		return a
	}
	return b
}

func clip(s string, n int) string {
	if len(s) > n {
		return s[:n] + "…"
	}
	return s
}

// checkJSONAgainst decodes a ToJSON document token-wise and compares it with the shadow.
// Returns "" when it denotes the frame. The first word of the message is a stable key.
func checkJSONAgainst(doc []byte, sh *model.Frame) string {
	if !json.Valid(doc) {
		return "invalid JSON syntax: " + clip(string(doc), 300)
	}
	if !utf8.Valid(doc) {
		// JSON text is UTF-8 (RFC 8259); encoding/json would silently repair invalid bytes while decoding
		return "invalid-utf8: the document contains bytes that are not valid UTF-8 (an invalid byte of a string was written unescaped)"
	}
	dec := json.NewDecoder(bytes.NewReader(doc))
	dec.UseNumber()
	tok, err := dec.Token()
	if err != nil || tok != json.Delim('[') {
		return fmt.Sprintf("structure: document does not start with an array: %v %v", tok, err)
	}
	n := sh.Len()
	r := 0
	for dec.More() {
		tok, err = dec.Token()
		if err != nil || tok != json.Delim('{') {
			return fmt.Sprintf("structure: row %d is not an object: %v %v", r, tok, err)
		}
		if r >= n {
			return fmt.Sprintf("rows: more than %d records", n)
		}
		ci := 0
		for dec.More() {
			ktok, err := dec.Token()
			if err != nil {
				return fmt.Sprintf("structure: %v", err)
			}
			key, _ := ktok.(string)
			if ci >= len(sh.Cols) {
				return fmt.Sprintf("keys: row %d has more than %d keys", r, len(sh.Cols))
			}
			col := sh.Cols[ci]
			if key != model.ReplaceInvalidUTF8(col.Name) {
				return fmt.Sprintf("keys: row %d key %d is %q, want column %q", r, ci, key, col.Name)
			}
			vtok, err := dec.Token()
			if err != nil {
				return fmt.Sprintf("structure: %v", err)
			}
			ok := true
			switch col.Kind {
			case model.KInt:
				num, isNum := vtok.(json.Number)
				ok = isNum && string(num) == strconv.Itoa(col.I[r])
			case model.KFloat:
				if math.IsNaN(col.F[r]) {
					ok = vtok == nil
				} else {
					num, isNum := vtok.(json.Number)
					if !isNum {
						ok = false
					} else {
						v, e := strconv.ParseFloat(string(num), 64)
						ok = e == nil && math.Float64bits(v) == math.Float64bits(col.F[r])
					}
				}
			case model.KBool:
				b, isB := vtok.(bool)
				ok = isB && b == col.B[r]
			default:
				if col.S[r] == nil {
					ok = vtok == nil
				} else {
					s, isS := vtok.(string)
					ok = isS && s == model.ReplaceInvalidUTF8(*col.S[r])
				}
			}
			if !ok {
				return fmt.Sprintf("value:%s row %d column %q decodes to %#v but the cell is %s", col.Kind, r, col.Name, vtok, col.CellString(r))
			}
			ci++
		}
		if ci != len(sh.Cols) {
			return fmt.Sprintf("keys: row %d has %d keys, want %d", r, ci, len(sh.Cols))
		}
		if tok, err = dec.Token(); err != nil || tok != json.Delim('}') {
			return fmt.Sprintf("structure: row %d not closed: %v", r, err)
		}
		r++
	}
	if tok, err = dec.Token(); err != nil || tok != json.Delim(']') {
		return fmt.Sprintf("structure: array not closed: %v", err)
	}
	if _, err = dec.Token(); err != io.EOF {
		return "structure: trailing data after the array"
	}
	if r != n {
		return fmt.Sprintf("rows: %d records for %d rows", r, n)
	}
	return ""
}

func equalsBoth(c *fw.Case, what string, a, b qframe.QFrame, want bool, key string) {
	c.Eval(1)
	var e1, e2 bool
	var r1, r2 string
	if !c.GuardFail("equals", "Equals ("+what+")", func() {
		e1, r1 = a.Equals(b)
		e2, r2 = b.Equals(a)
	}) {
		return
	}
	if e1 != e2 {
		c.Fail("equals-asymmetric:"+key, "Equals not symmetric for %s: a.Equals(b)=%v (%s), b.Equals(a)=%v (%s)", what, e1, r1, e2, r2)
		return
	}
	if e1 != want {
		c.Fail(fmt.Sprintf("equals-%v:%s", e1, key), "Equals(%s) = %v (%s), want %v", what, e1, r1, want)
	}
}

func runC09(c *fw.Case) {
	rng := c.Rng
	maxRows := 200
	if rng.Intn(25) == 0 {
		maxRows = 3000
	}
	o := model.GenOpts{Rows: model.PickRows(rng, maxRows), MinCols: 1, MaxCols: 6, ID: rng.Intn(3) > 0, NoCR: true, NoInf: true}
	root, err := model.MakeRoot(rng, o, 5, true)
	if err != nil {
		c.Count("root_build_failed", 1)
		return
	}
	if rng.Intn(8) == 0 {
		if ar := aggregateDerive(rng, root); ar != nil {
			root = ar
			c.Count("roots_produced_by_aggregate", 1)
		}
	}
	if rng.Intn(8) == 0 {
		meta := model.MetaOf(root.Shadow)
		if up, op := model.UpperCaseEnum(rng, root.QF, root.Shadow, meta); op != "" {
			if sh2, e := model.ObserveGuard(up); e == nil {
				meta.Apply(sh2)
				root = &model.Root{Shadow: sh2, QF: up, Path: root.Path, Ops: append(root.Ops, op), Shape: root.Shape}
				c.Count("frames_with_uppercased_enum", 1)
			}
		}
	}
	sh := root.Shadow
	c.Count("shape:"+root.Shape, 1)
	var notes []string
	c.DescribeLazy(func() interface{} {
		d := root.Describe(25)
		d["checks"] = notes
		return d
	})
	kinds := map[model.Kind]bool{}
	for _, col := range sh.Cols {
		kinds[col.Kind] = true
	}
	if root.Shape != "identity" && (root.Shape != "unknown" || !hooks.Available) && len(kinds) >= 2 {
		c.Nontrivial(fmt.Sprint(sh.Describe(1000)))
		c.Count("nontrivial_frames", 1)
	}
	if len(sh.Cols) == 0 {
		return
	}
	checkChannels(c, root)

	// ---- Equals
	qf := root.QF
	equalsBoth(c, "f, f", qf, qf, true, "reflexive")
	rb := rebuildNew(sh)
	if rb.Err != nil {
		c.Fail("rebuild", "rebuilding the frame from its observed values failed: %v", rb.Err)
		return
	}
	equalsBoth(c, "f, rebuild(f) via New", qf, rb, true, "rebuild-new")
	// ---- siblings: two frames derived from f by adding different columns; the first one is observed afterwards
	// and must still be, through every observer, f plus its own column
	if !c.Failed() && rng.Intn(2) == 0 {
		a := qf.Apply(qframe.Instruction{Fn: 7, DstCol: "sib_a"})
		var b qframe.QFrame
		var how string
		switch rng.Intn(4) {
		case 0:
			b, how = qf.WithRowNums("sib_b"), "WithRowNums"
		case 1:
			b, how = qf.Copy("sib_b", sh.Cols[0].Name), "Copy"
		case 2:
			b, how = qf.Eval("sib_b", qframe.Val(2.5)), "Eval"
		default:
			b, how = qf.Apply(qframe.Instruction{Fn: true, DstCol: "sib_b"}), "Apply"
		}
		if a.Err == nil && b.Err == nil {
			c.Count("sibling_pairs", 1)
			wantA := &model.Frame{Cols: append([]*model.Col(nil), sh.Cols...)}
			ca := model.NewCol("sib_a", model.KInt, sh.Len())
			for i := range ca.I {
				ca.I[i] = 7
			}
			wantA.Cols = append(wantA.Cols, ca)
			gotA, oerr := model.ObserveGuard(a)
			if oerr != nil {
				c.Fail("sibling:observe", "f.Apply(sib_a) cannot be observed after f.%s(sib_b): %v", how, oerr)
			} else if d := model.Diff(wantA, gotA); d != "" {
				c.Fail("sibling:differs", "f.Apply(sib_a) observed after f.%s(sib_b): %s", how, d)
			} else {
				checkChannels(c, &model.Root{Shadow: wantA, QF: a, Shape: root.Shape})
				if ra := rebuildNew(wantA); ra.Err == nil {
					equalsBoth(c, "f.Apply(sib_a) observed after a sibling was derived, its rebuild", a, ra, true, "sibling-rebuild")
				}
			}
		}
	}
	if ok, en := model.CanCSV(sh); ok {
		rc := model.BuildCSV(rng, sh, en)
		if rc.Err == nil {
			// NaN payloads and the declared enum values survive; both rebuilds must be mutually equal (transitivity)
			equalsBoth(c, "f, rebuild(f) via ReadCSV", qf, rc, true, "rebuild-csv")
			equalsBoth(c, "rebuild via New, rebuild via ReadCSV", rb, rc, true, "transitive")
			c.Count("transitivity_triples", 1)
		}
	}
	// negative controls: exactly one difference
	n := sh.Len()
	if n > 0 {
		for k := 0; k < 3; k++ {
			m := sh.Clone()
			col := m.Cols[rng.Intn(len(m.Cols))]
			r := rng.Intn(n)
			desc := ""
			switch col.Kind {
			case model.KInt:
				col.I[r]++
				desc = "one int cell +1"
			case model.KFloat:
				if math.IsNaN(col.F[r]) {
					col.F[r] = 0
					desc = "NaN cell -> 0"
				} else if col.F[r] == 0 {
					col.F[r] = 1
					desc = "zero float cell -> 1"
				} else {
					col.F[r] = math.Nextafter(col.F[r], math.Inf(1))
					if math.IsInf(col.F[r], 0) || math.IsNaN(col.F[r]) {
						col.F[r] = 0
					}
					desc = "one float cell by one ulp"
				}
			case model.KBool:
				col.B[r] = !col.B[r]
				desc = "one bool cell flipped"
			default:
				if col.S[r] == nil {
					col.S[r] = model.StrP("")
					desc = "null " + col.Kind.String() + " cell -> empty string"
				} else if *col.S[r] == "" && rng.Intn(2) == 0 {
					col.S[r] = nil
					desc = "empty " + col.Kind.String() + " cell -> null"
				} else {
					col.S[r] = model.StrP(*col.S[r] + "x")
					desc = "one " + col.Kind.String() + " cell + \"x\""
				}
				if col.Kind == model.KEnum {
					col.EnumKnown, col.EnumVals = true, nil
				}
			}
			mq := rebuildNew(m)
			if mq.Err != nil {
				continue
			}
			notes = append(notes, "negative: "+desc)
			equalsBoth(c, "f, rebuild with "+desc, qf, mq, false, "neg-cell:"+col.Kind.String())
		}
	}
	{
		m := sh.Clone()
		col := m.Cols[rng.Intn(len(m.Cols))]
		col.Name = col.Name + "_"
		if mq := rebuildNew(m); mq.Err == nil {
			equalsBoth(c, "f, rebuild with one column renamed", qf, mq, false, "neg-name")
		}
	}
	if len(sh.Cols) >= 2 {
		m := sh.Clone()
		i, j := 0, 1+rng.Intn(len(m.Cols)-1)
		m.Cols[i], m.Cols[j] = m.Cols[j], m.Cols[i]
		if mq := rebuildNew(m); mq.Err == nil {
			equalsBoth(c, "f, rebuild with two columns swapped", qf, mq, false, "neg-order")
		}
	}
	{
		// type change with the "same looking" content: Equals must see the different column type
		perm := rng.Perm(len(sh.Cols))
		for _, ci := range perm {
			m := sh.Clone()
			col := m.Cols[ci]
			changed := ""
			switch col.Kind {
			case model.KInt:
				okRange, zeroOne := true, true
				for _, v := range col.I {
					if v > 1<<50 || v < -(1<<50) {
						okRange = false
					}
					if v != 0 && v != 1 {
						zeroOne = false
					}
				}
				if zeroOne && rng.Intn(2) == 0 {
					bc := model.NewCol(col.Name, model.KBool, col.Len())
					for r, v := range col.I {
						bc.B[r] = v == 1
					}
					m.Cols[ci], changed = bc, "int column (0/1) as bool"
				} else if okRange {
					fc := model.NewCol(col.Name, model.KFloat, col.Len())
					for r, v := range col.I {
						fc.F[r] = float64(v)
					}
					m.Cols[ci], changed = fc, "int column as float"
				}
			case model.KBool:
				ic := model.NewCol(col.Name, model.KInt, col.Len())
				for r, v := range col.B {
					if v {
						ic.I[r] = 1
					}
				}
				m.Cols[ci], changed = ic, "bool column as int (0/1)"
			case model.KFloat:
				integral := true
				for _, v := range col.F {
					if math.IsNaN(v) || v != math.Trunc(v) || math.Abs(v) > 1<<50 {
						integral = false
					}
				}
				if integral {
					ic := model.NewCol(col.Name, model.KInt, col.Len())
					for r, v := range col.F {
						ic.I[r] = int(v)
					}
					m.Cols[ci], changed = ic, "float column (integral) as int"
				}
			case model.KString:
				ec := col.Clone()
				ec.Kind, ec.EnumKnown, ec.EnumVals = model.KEnum, true, nil
				distinct := map[string]bool{}
				for _, s := range ec.S {
					if s != nil {
						distinct[*s] = true
					}
				}
				if len(distinct) <= 200 {
					m.Cols[ci], changed = ec, "string column as enum"
				}
			case model.KEnum:
				sc := col.Clone()
				sc.Kind = model.KString
				m.Cols[ci], changed = sc, "enum column as string"
			}
			if changed == "" {
				continue
			}
			if mq := rebuildNew(m); mq.Err == nil {
				notes = append(notes, "negative: "+changed)
				equalsBoth(c, "f, rebuild with "+changed, qf, mq, false, "neg-type:"+strings.ReplaceAll(changed, " ", "-"))
			}
			break
		}
	}
	if n > 0 {
		// different length
		equalsBoth(c, "f, f without its last row", qf, qf.Slice(0, n-1), false, "neg-len")
	}

	// ---- pairs of frames that share column storage but pair different physical rows
	sharedStoragePairs(c, rng)

	// ---- same operation on f and rebuild(f)
	kindsMap := sh.Kinds()
	for k := 0; k < 4; k++ {
		var a, b qframe.QFrame
		var op string
		pv, _ := fw.Guard(func() {
			switch rng.Intn(8) {
			case 5:
				op = "WithRowNums(rownum)"
				a, b = qf.WithRowNums("rownum"), rb.WithRowNums("rownum")
			case 6:
				// a generator: the k-th row of the frame receives the k-th generated value
				gen := func() func() int { k := 100; return func() int { k += 3; return k } }
				dst := []string{"generated", sh.Cols[rng.Intn(len(sh.Cols))].Name}[rng.Intn(2)]
				op = fmt.Sprintf("Apply(counting func() int -> %q)", dst)
				a, b = qf.Apply(qframe.Instruction{Fn: gen(), DstCol: dst}), rb.Apply(qframe.Instruction{Fn: gen(), DstCol: dst})
			case 7:
				// a row-wise function of one column, and a copy of a column
				src := sh.Cols[rng.Intn(len(sh.Cols))]
				op = fmt.Sprintf("Apply(Copy %q -> cpy; ToUpper/identity on it)", src.Name)
				ins := []qframe.Instruction{{Fn: types.ColumnName(src.Name), DstCol: "cpy"}}
				if src.Kind == model.KString || src.Kind == model.KEnum {
					ins = append(ins, qframe.Instruction{Fn: "ToUpper", DstCol: "up", SrcCol1: "cpy"})
				}
				a, b = qf.Apply(ins...), rb.Apply(ins...)
			case 0:
				cl := model.GenClause(rng, sh, 1+rng.Intn(3))
				if cl == nil {
					return
				}
				op = "Filter(" + cl.String() + ")"
				a, b = qf.Filter(cl.Real(kindsMap)), rb.Filter(cl.Real(kindsMap))
			case 1:
				orders := sameResultOrders(rng, sh)
				if orders == nil {
					return
				}
				op = fmt.Sprintf("Sort(%+v)", orders)
				a, b = qf.Sort(orders...), rb.Sort(orders...)
			case 2:
				x := rng.Intn(n + 1)
				y := x + rng.Intn(n-x+1)
				op = fmt.Sprintf("Slice(%d,%d)", x, y)
				a, b = qf.Slice(x, y), rb.Slice(x, y)
			case 3:
				names := sh.Names()
				perm := rng.Perm(len(names))
				sel := []string{}
				for _, p := range perm[:1+rng.Intn(len(names))] {
					sel = append(sel, names[p])
				}
				op = fmt.Sprintf("Select(%q)", sel)
				a, b = qf.Select(sel...), rb.Select(sel...)
			default:
				var keys []string
				var orders []qframe.Order
				for _, col := range sh.Cols {
					if col.Name != model.IDCol && (col.Kind != model.KEnum || col.Strict()) && rng.Intn(2) == 0 && len(keys) < 3 {
						keys = append(keys, col.Name)
						orders = append(orders, qframe.Order{Column: col.Name})
					}
				}
				if len(keys) == 0 || n == 0 {
					return
				}
				nullEq := true // with Null(false) every null row is its own class and the projection below has duplicates in both
				op = fmt.Sprintf("Distinct(%q).Select(keys).Sort(keys)", keys)
				a = qf.Distinct(groupby.Columns(keys...), groupby.Null(nullEq)).Select(keys...).Sort(orders...)
				b = rb.Distinct(groupby.Columns(keys...), groupby.Null(nullEq)).Select(keys...).Sort(orders...)
			}
		})
		if op == "" {
			continue
		}
		if pv != nil {
			c.Fail("panic:sameop", "panic while applying %s to the frame and its rebuild: %v", op, pv)
			continue
		}
		notes = append(notes, "same-op: "+op)
		c.Eval(1)
		if (a.Err == nil) != (b.Err == nil) {
			c.Fail("sameop-err:"+firstWord(op), "%s: Err on frame: %v, Err on rebuild: %v", op, a.Err, b.Err)
			continue
		}
		if a.Err != nil {
			continue
		}
		eq, reason := a.Equals(b)
		if !eq {
			c.Fail("sameop:"+opKind(op), "%s gives results that are not Equal on the frame (index %s) and on its rebuild: %s", op, root.Shape, reason)
		}
	}
}

func opKind(op string) string {
	if i := strings.IndexByte(op, '('); i > 0 {
		return op[:i]
	}
	return op
}

// sameResultOrders picks sort keys and appends the id column so that the order is total.
func sameResultOrders(rng *rand.Rand, sh *model.Frame) []qframe.Order {
	if sh.Col(model.IDCol) == nil {
		return nil
	}
	var orders []qframe.Order
	for _, col := range sh.Cols {
		if validSortKey(col) && rng.Intn(3) == 0 && len(orders) < 3 {
			orders = append(orders, qframe.Order{Column: col.Name, Reverse: rng.Intn(2) == 0, NullLast: rng.Intn(2) == 0})
		}
	}
	if rng.Intn(2) == 0 && len(orders) > 0 {
		// no tie break: the order of ties is free (C03) but it may only depend on the rows' values and logical order,
		// never on the physical layout, otherwise a rebuilt frame would not yield Equal results
		return orders
	}
	return append(orders, qframe.Order{Column: model.IDCol, Reverse: rng.Intn(2) == 0})
}

// framesEqualRef decides cell-wise equality of two observations the way Equals is specified:
// same names/order/types, null equals null, NaN equals NaN, enum cells by string value.
func framesEqualRef(a, b *model.Frame) bool {
	if len(a.Cols) != len(b.Cols) || a.Len() != b.Len() {
		return false
	}
	for i, ca := range a.Cols {
		cb := b.Cols[i]
		if ca.Name != cb.Name || ca.Kind != cb.Kind {
			return false
		}
		for r := 0; r < ca.Len(); r++ {
			if ca.Kind == model.KFloat {
				x, y := ca.F[r], cb.F[r]
				if !(x == y || (math.IsNaN(x) && math.IsNaN(y))) {
					return false
				}
			} else if !model.CellEq(ca, r, cb, r) {
				return false
			}
		}
	}
	return true
}

// sharedStoragePairs builds a frame whose second half repeats the first half (string-like cells possibly
// in another letter case, later upper-cased in place through the built-in enum ToUpper), and compares
// Equals on pairs of frames derived from it with the verdict computed from their observations.
func sharedStoragePairs(c *fw.Case, rng *rand.Rand) {
	n := 1 + rng.Intn(12)
	half := model.GenFrame(rng, model.GenOpts{Rows: n, MinCols: 1, MaxCols: 4, NoCR: true, NoInf: true, UTF8: true,
		Strings: []string{"ab", "AB", "Ab", "aB", "cd", "CD", "x", "X", "", "é", "É"}, LowCard: 3})
	f := &model.Frame{}
	var enumCols []string
	for _, col := range half.Cols {
		d := model.NewCol(col.Name, col.Kind, 2*n)
		d.EnumKnown = col.EnumKnown // derived enum (values collected from the data)
		for r := 0; r < n; r++ {
			d.Set(r, col, r)
			d.Set(n+r, col, r)
			if col.Kind == model.KEnum && col.S[r] != nil && rng.Intn(2) == 0 {
				d.S[n+r] = model.StrP(strings.ToLower(*col.S[r]))
			}
		}
		if col.Kind == model.KEnum {
			enumCols = append(enumCols, col.Name)
		}
		f.Cols = append(f.Cols, d)
	}
	qf := model.BuildNew(rng, f)
	if qf.Err != nil {
		return
	}
	for _, ec := range enumCols {
		var next qframe.QFrame
		if pv, _ := fw.Guard(func() { next = qf.Apply(qframe.Instruction{Fn: "ToUpper", DstCol: ec, SrcCol1: ec}) }); pv != nil || next.Err != nil {
			return
		}
		qf = next
	}
	var frames []qframe.QFrame
	pv, _ := fw.Guard(func() {
		frames = append(frames, qf.Slice(0, n), qf.Slice(n, 2*n))
		names := qf.ColumnNames()
		o := qframe.Order{Column: names[rng.Intn(len(names))], Reverse: rng.Intn(2) == 0}
		if qf.ColumnTypeMap()[o.Column] != "enum" {
			frames = append(frames, qf.Slice(0, n).Sort(o), qf.Slice(n, 2*n).Sort(o))
		}
		k := rng.Intn(n + 1)
		frames = append(frames, qf.Slice(k, k+n))
	})
	if pv != nil {
		return
	}
	obs := make([]*model.Frame, len(frames))
	for i, fr := range frames {
		o, err := model.ObserveGuard(fr)
		if err != nil {
			return
		}
		obs[i] = o
	}
	for i := 0; i < len(frames); i++ {
		for j := i + 1; j < len(frames); j++ {
			want := framesEqualRef(obs[i], obs[j])
			key := "shared-storage"
			if len(enumCols) > 0 {
				key += "+enum-toupper"
			}
			equalsBoth(c, fmt.Sprintf("two frames derived from one frame of %d rows (pair %d,%d; observed contents equal: %v)", 2*n, i, j, want), frames[i], frames[j], want, key)
			if want {
				c.Count("shared_storage_equal_pairs", 1)
			} else {
				c.Count("shared_storage_unequal_pairs", 1)
			}
		}
	}
}
