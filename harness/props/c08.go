package props

import (
	"fmt"
	"math"
	"math/rand"
	"sort"
	"strings"

	"github.com/tobgu/qframe"
	"github.com/tobgu/qframe/config/newqf"
	"github.com/tobgu/qframe/types"

	"qverif/fw"
	"qverif/model"
)

func init() {
	fw.Register(&fw.Property{
		ID:    "C08",
		Level: "exploration",
		Rule: "even cases: one generated column map (any mix of types, lengths incl. 0, hostile byte strings and legal-but-odd names, Const*/[]string/[]*string encodings, random ColumnOrder/Enums) passed to New " +
			"once valid (result must equal the input) and once with each applicable single corruption (length mismatch at every column position incl. a zero-length first column, illegal name, unknown/missing ColumnOrder entry, Enums for an absent column, unsupported type; result must have Err); " +
			"odd cases: one derived frame with Select/Drop/Copy requests (valid and invalid) and Slice bounds (all (a,b) in [-1,n+1]^2 when n<=12, random otherwise) compared with the shadow projection; " +
			"non-trivial = corrupted input, or projection on a frame with non-identity index; distinct by request text + frame ids",
		Assumptions: []string{
			"Drop requests naming a column repeatedly and Drop() are demanded (the remaining columns are unambiguous); not demanded: duplicates inside ColumnOrder/Select, Select() and Drop of every column, Drop of unknown names (ignored by the implementation), negative Const counts",
			"observation through typed views is faithful (C09)",
		},
		Stages:  stages(20000, 2500000, 0, 0),
		RunCase: runC08,
	})
}

var oddNames = []string{"'ab", "ab'", "\"ab", "ab\"", "'a\"", "a", "b", "B", "aa", "a b", " a", "a ", "ä", "日本", "a\"b", "\"", "'", "x'y", "a,b", "a\nb", "\x00", "\xff", "a$", "A$b", "1", "-", "\"a", "a\"", "'x", "Ω", "const-temp-0", "__id2", "z"}

func runC08(c *fw.Case) {
	if c.No%2 == 0 {
		c08New(c)
	} else {
		c08Project(c)
	}
}

type newInput struct {
	data  map[string]types.DataSlice
	order []string // nil = default
	enums map[string][]string
}

func (in *newInput) call() qframe.QFrame {
	var fns []newqf.ConfigFunc
	if in.order != nil {
		fns = append(fns, newqf.ColumnOrder(in.order...))
	}
	if in.enums != nil {
		fns = append(fns, newqf.Enums(in.enums))
	}
	// New may keep the map's slices: hand over copies so that the case description stays intact
	d := map[string]types.DataSlice{}
	for k, v := range in.data {
		d[k] = v
	}
	return qframe.New(d, fns...)
}

func colData(rng *rand.Rand, col *model.Col) types.DataSlice {
	n := col.Len()
	switch col.Kind {
	case model.KInt:
		if n > 0 && rng.Intn(2) == 0 {
			same := true
			for _, v := range col.I {
				same = same && v == col.I[0]
			}
			if same {
				return qframe.ConstInt{Val: col.I[0], Count: n}
			}
		}
		return append([]int{}, col.I...)
	case model.KFloat:
		if n > 0 && rng.Intn(2) == 0 {
			same := true
			for _, v := range col.F {
				same = same && math.Float64bits(v) == math.Float64bits(col.F[0])
			}
			if same {
				return qframe.ConstFloat{Val: col.F[0], Count: n}
			}
		}
		return append([]float64{}, col.F...)
	case model.KBool:
		if n > 0 && rng.Intn(2) == 0 {
			same := true
			for _, v := range col.B {
				same = same && v == col.B[0]
			}
			if same {
				return qframe.ConstBool{Val: col.B[0], Count: n}
			}
		}
		return append([]bool{}, col.B...)
	default:
		if n > 0 && rng.Intn(4) == 0 {
			same := true
			for _, v := range col.S {
				same = same && (v == nil) == (col.S[0] == nil) && (v == nil || *v == *col.S[0])
			}
			if same {
				var p *string
				if col.S[0] != nil {
					p = model.StrP(*col.S[0])
				}
				return qframe.ConstString{Val: p, Count: n}
			}
		}
		allNonNil := true
		for _, s := range col.S {
			allNonNil = allNonNil && s != nil
		}
		if allNonNil && rng.Intn(3) == 0 {
			ss := make([]string, n)
			for i, s := range col.S {
				ss[i] = *s
			}
			return ss
		}
		sp := make([]*string, n)
		if rng.Intn(3) == 0 {
			// equal strings share one pointer (callers often intern their strings)
			shared := map[string]*string{}
			for i, s := range col.S {
				if s != nil {
					p, ok := shared[*s]
					if !ok {
						p = model.StrP(*s)
						shared[*s] = p
					}
					sp[i] = p
				}
			}
			return sp
		}
		for i, s := range col.S {
			if s != nil {
				sp[i] = model.StrP(*s)
			}
		}
		return sp
	}
}

func c08New(c *fw.Case) {
	rng := c.Rng
	rows := model.PickRows(rng, 60)
	if rng.Intn(6) == 0 {
		rows = 0
	}
	long := c.No%300 == 44
	if long {
		// long columns, constant ones among them (a constant may be laid out block by block)
		rows = []int{1024, 1025, 1500, 2500, 4097, 5000}[rng.Intn(6)]
	}
	f := model.GenFrame(rng, model.GenOpts{Rows: rows, MinCols: 0, MaxCols: 6, Names: oddNames})
	if rng.Intn(4) == 0 || long {
		// constant columns exercise Const*
		for _, col := range f.Cols {
			if col.Kind == model.KFloat && col.Len() > 0 && rng.Intn(4) == 0 {
				col.F[0] = []float64{math.Copysign(0, -1), model.NaNPayload, math.Inf(-1), 5e-324}[rng.Intn(4)]
			}
			for i := 1; i < col.Len(); i++ {
				col.Set(i, col, 0)
			}
		}
	}
	in := &newInput{data: map[string]types.DataSlice{}}
	for _, col := range f.Cols {
		in.data[col.Name] = colData(rng, col)
		if col.Kind == model.KEnum {
			if in.enums == nil {
				in.enums = map[string][]string{}
			}
			in.enums[col.Name] = append([]string(nil), col.EnumVals...)
			if len(col.EnumVals) == 0 {
				in.enums[col.Name] = nil
			}
		}
		if cs, ok := in.data[col.Name].(qframe.ConstInt); ok && col.Kind == model.KInt {
			_ = cs
		}
	}
	want := f
	if rng.Intn(2) == 0 && len(f.Cols) > 0 {
		perm := rng.Perm(len(f.Cols))
		want = &model.Frame{}
		for _, p := range perm {
			want.Cols = append(want.Cols, f.Cols[p])
			in.order = append(in.order, f.Cols[p].Name)
		}
	} else {
		want = &model.Frame{Cols: append([]*model.Col(nil), f.Cols...)}
		sort.Slice(want.Cols, func(i, j int) bool { return want.Cols[i].Name < want.Cols[j].Name })
	}
	var tried []string
	c.DescribeLazy(func() interface{} {
		d := want.Describe(12)
		d["column_order"] = fmt.Sprintf("%q", in.order)
		d["corruptions_tried"] = tried
		return d
	})

	// ---- valid input
	c.Eval(1)
	var res qframe.QFrame
	if c.GuardFail("new", "New(valid input)", func() { res = in.call() }) {
		if res.Err != nil {
			c.Fail("new-rejects-valid", "New rejected a valid input: %v", res.Err)
		} else if got, err := model.ObserveGuard(res); err != nil {
			c.Fail("observe", "New(valid): %v", err)
		} else if d := model.Diff(want, got); d != "" {
			c.Fail("new-differs", "New(valid input) does not reproduce its input: %s", d)
		} else if res.Len() != want.Len() {
			c.Fail("new-len", "New(valid input).Len() = %d, want %d", res.Len(), want.Len())
		}
	}
	if len(f.Cols) >= 2 && rows > 0 {
		c.Nontrivial("valid", fmt.Sprint(want.Names()), rows, fmt.Sprint(in.order), c.No)
	}

	// ---- single corruptions
	orderOf := func() []string {
		if in.order != nil {
			return in.order
		}
		return want.Names()
	}
	expectErr := func(name string, bad *newInput) {
		tried = append(tried, name)
		c.Eval(1)
		c.Count("corruption:"+firstWord(name), 1)
		var r qframe.QFrame
		if !c.GuardFail("new:"+firstWord(name), "New("+name+")", func() { r = bad.call() }) {
			return
		}
		c.Nontrivial(name, fmt.Sprint(want.Names()), rows, c.No)
		if r.Err == nil {
			c.Fail("new-accepts:"+firstWord(name), "New accepted an input with %s (Len()=%d, columns %q)", name, r.Len(), r.ColumnNames())
		} else if r.Len() != -1 {
			c.Fail("errlen", "New(%s) has Err but Len()=%d", name, r.Len())
		}
	}
	clone := func() *newInput {
		n := &newInput{data: map[string]types.DataSlice{}, order: append([]string(nil), in.order...)}
		if in.order == nil {
			n.order = nil
		}
		for k, v := range in.data {
			n.data[k] = v
		}
		if in.enums != nil {
			n.enums = map[string][]string{}
			for k, v := range in.enums {
				n.enums[k] = v
			}
		}
		return n
	}
	// (a) length mismatch at every column position
	if len(f.Cols) >= 2 {
		for pos, name := range orderOf() {
			col := f.Col(name)
			var newLen int
			switch rng.Intn(3) {
			case 0:
				newLen = 0
			case 1:
				newLen = rows + 1 + rng.Intn(3)
			default:
				newLen = rng.Intn(rows + 1)
			}
			if newLen == rows {
				newLen = rows + 1
			}
			bad := clone()
			short := model.GenCol(rng, name, col.Kind, newLen, &model.GenOpts{})
			if col.Kind == model.KEnum {
				// stay inside the declared values so that only the length is wrong
				for i := range short.S {
					short.S[i] = nil
				}
			}
			bad.data[name] = colData(rng, short)
			switch bad.data[name].(type) {
			case qframe.ConstInt:
				bad.data[name] = append([]int{}, short.I...)
			case qframe.ConstFloat:
				bad.data[name] = append([]float64{}, short.F...)
			case qframe.ConstBool:
				bad.data[name] = append([]bool{}, short.B...)
			case qframe.ConstString:
				bad.data[name] = make([]*string, newLen)
			}
			expectErr(fmt.Sprintf("length-mismatch column %d of %d (%q) has %d rows, others %d", pos, len(f.Cols), name, newLen, rows), bad)
		}
	}
	// (b) illegal name
	{
		bad := clone()
		illegal := []string{"", "\"quoted\"", "'quoted'", "$x", "$", "\"a b\"", "'it's'", "\"a\"b\"", "'" + "''", "\"say \"hi\"\""}[rng.Intn(10)]
		bad.data[illegal] = make([]int, rows)
		if bad.order != nil {
			bad.order = append(bad.order, illegal)
		}
		expectErr(fmt.Sprintf("illegal-name %q", illegal), bad)
	}
	// (c) column order problems
	if len(f.Cols) > 0 {
		bad := clone()
		bad.order = append([]string(nil), orderOf()...)
		bad.order[rng.Intn(len(bad.order))] = "no-such-column"
		expectErr("order-unknown entry in ColumnOrder", bad)
		bad2 := clone()
		bad2.order = append([]string(nil), orderOf()...)
		if len(bad2.order) > 1 {
			i := rng.Intn(len(bad2.order))
			bad2.order = append(bad2.order[:i], bad2.order[i+1:]...)
			expectErr("order-missing entry in ColumnOrder", bad2)
		}
		bad3 := clone()
		bad3.order = append(append([]string(nil), orderOf()...), "extra-column")
		expectErr("order-extra entry in ColumnOrder", bad3)
	}
	// (d) enums for an absent column / a non string column
	{
		bad := clone()
		if bad.enums == nil {
			bad.enums = map[string][]string{}
		}
		bad.enums["absent-enum-column"] = []string{"a"}
		expectErr("enums-absent column named in Enums", bad)
		// an entry naming a column that cannot be an enum (int, float, bool; slice or constant)
		for _, col := range f.Cols {
			if col.Kind == model.KString || col.Kind == model.KEnum {
				continue
			}
			bad := clone()
			if bad.enums == nil {
				bad.enums = map[string][]string{}
			}
			bad.enums[col.Name] = [][]string{nil, {"a", "b"}}[rng.Intn(2)]
			expectErr(fmt.Sprintf("enums-entry for the %s column %q", col.Kind, col.Name), bad)
			break
		}
	}
	// (d') an enum column holding a value outside its declared values, in every encoding of the column,
	// next to the other columns and as the only column of the input
	{
		n := rows
		if n == 0 {
			n = 1 + rng.Intn(3)
		}
		for _, alone := range []bool{false, true} {
			if !alone && rows == 0 && len(f.Cols) > 0 {
				continue // the other columns are empty: n rows would be a length mismatch as well
			}
			bad := clone()
			if alone {
				bad = &newInput{data: map[string]types.DataSlice{}}
			}
			name := "enum-with-undeclared-value"
			declared := []string{"a", "b", "c"}
			outside := []string{"d", "A", "", "ab"}[rng.Intn(4)]
			var v types.DataSlice
			enc := rng.Intn(3)
			switch enc {
			case 0:
				v = qframe.ConstString{Val: model.StrP(outside), Count: n}
			case 1:
				sp := make([]*string, n)
				for i := range sp {
					sp[i] = model.StrP(declared[rng.Intn(3)])
				}
				sp[rng.Intn(n)] = model.StrP(outside)
				v = sp
			default:
				ss := make([]string, n)
				for i := range ss {
					ss[i] = declared[rng.Intn(3)]
				}
				ss[rng.Intn(n)] = outside
				v = ss
			}
			bad.data[name] = v
			if bad.enums == nil {
				bad.enums = map[string][]string{}
			}
			bad.enums[name] = declared
			if bad.order != nil {
				bad.order = append(bad.order, name)
			}
			expectErr(fmt.Sprintf("enum-undeclared value %q in a column declared over %q (encoding %d, only column: %v)", outside, declared, enc, alone), bad)
		}
	}
	// (d'') a declared enum value list with more values than an enum can hold (256, 257, 300)
	{
		bad := clone()
		nvals := []int{256, 256, 257, 300}[rng.Intn(4)]
		vals := make([]string, nvals)
		for i := range vals {
			vals[i] = fmt.Sprintf("v%03d", i)
		}
		name := "enum-with-too-many-declared-values"
		n := rows
		cells := make([]*string, n)
		for i := range cells {
			cells[i] = model.StrP(vals[[]int{0, 254, 255, nvals - 1}[rng.Intn(4)]])
		}
		bad.data[name] = cells
		if bad.enums == nil {
			bad.enums = map[string][]string{}
		}
		bad.enums[name] = vals
		if bad.order != nil {
			bad.order = append(bad.order, name)
		}
		expectErr(fmt.Sprintf("enum-declared list of %d values", nvals), bad)
	}
	// (e) unsupported data type
	{
		bad := clone()
		name := "unsupported"
		var v interface{}
		switch rng.Intn(8) {
		case 0:
			v = make([]int32, rows)
		case 1:
			v = make([]interface{}, rows)
		case 2:
			v = nil
		case 3:
			v = map[string]int{}
		case 4:
			v = "string"
		case 5:
			v = make([]float32, rows)
		case 6:
			v = make([]uint, rows)
		default:
			v = make([][]int, rows)
		}
		bad.data[name] = v
		if bad.order != nil {
			bad.order = append(bad.order, name)
		}
		expectErr(fmt.Sprintf("unsupported-type %T", v), bad)
	}
}

func firstWord(s string) string {
	for i, r := range s {
		if r == ' ' {
			return s[:i]
		}
	}
	return s
}

func c08Project(c *fw.Case) {
	rng := c.Rng
	rows := model.PickRows(rng, 200)
	if rng.Intn(3) == 0 {
		rows = rng.Intn(13)
	}
	root, err := model.MakeRoot(rng, model.GenOpts{Rows: rows, MinCols: 1, MaxCols: 6, ID: true, NoCR: true}, 4, true)
	if err != nil {
		c.Count("root_build_failed", 1)
		return
	}
	if rng.Intn(8) == 0 {
		if ar := aggregateDerive(rng, root); ar != nil {
			root = ar
			c.Count("roots_produced_by_aggregate", 1)
		}
	}
	sh := root.Shadow
	c.Count("shape:"+root.Shape, 1)
	var reqs []string
	c.DescribeLazy(func() interface{} {
		d := root.Describe(20)
		d["requests"] = reqs
		return d
	})
	names := sh.Names()
	n := sh.Len()
	nonIdent := root.Shape != "identity" && root.Shape != "unknown"

	type kept struct {
		req  string
		want *model.Frame
		res  qframe.QFrame
	}
	var earlier []kept
	defer func() {
		// every result handed out earlier must still be what was requested after all later requests on the same frame
		for _, k := range earlier {
			c.Eval(1)
			got, oerr := model.ObserveGuard(k.res)
			if oerr != nil {
				c.Fail("later-request-damaged-result:"+firstWord(k.req), "result of %s can no longer be observed after later requests on the same frame: %v", k.req, oerr)
				return
			}
			if d := model.Diff(k.want, got); d != "" {
				c.Fail("later-request-damaged-result:"+firstWord(k.req), "result of %s changed after later requests on the same frame: %s", k.req, d)
				return
			}
		}
	}()
	check := func(req string, valid bool, want *model.Frame, f func() qframe.QFrame) {
		reqs = append(reqs, req)
		c.Eval(1)
		if nonIdent || !valid {
			c.Nontrivial(req, idKey(sh.IDs()), fmt.Sprint(names))
		}
		var res qframe.QFrame
		kind := strings.SplitN(firstWord(req), "(", 2)[0]
		if !c.GuardFail(kind, req, func() { res = f() }) {
			return
		}
		if !valid {
			if res.Err == nil {
				c.Fail("accepts-invalid:"+kind, "%s accepted (Len()=%d) on a frame with %d rows and columns %q", req, res.Len(), n, names)
			} else if res.Len() != -1 {
				c.Fail("errlen", "%s has Err but Len()=%d", req, res.Len())
			}
			return
		}
		if res.Err != nil {
			c.Fail("rejects-valid:"+kind, "%s rejected: %v", req, res.Err)
			return
		}
		got, oerr := model.ObserveGuard(res)
		if oerr != nil {
			c.Fail("observe", "%s: %v", req, oerr)
			return
		}
		if d := model.Diff(want, got); d != "" {
			c.Fail("differs:"+kind, "%s on frame (index %s): %s", req, root.Shape, d)
		} else if len(earlier) < 12 {
			earlier = append(earlier, kept{req, want, res})
		}
	}

	// Select
	for k := 0; k < 2; k++ {
		perm := rng.Perm(len(names))
		cnt := 1 + rng.Intn(len(names))
		sel := make([]string, cnt)
		want := &model.Frame{}
		for i := 0; i < cnt; i++ {
			sel[i] = names[perm[i]]
			want.Cols = append(want.Cols, sh.Col(sel[i]))
		}
		check(fmt.Sprintf("Select(%q)", sel), true, want, func() qframe.QFrame { return root.QF.Select(sel...) })
	}
	{
		sel := append([]string{}, names[:rng.Intn(len(names))]...)
		sel = append(sel, "no-such-column")
		check(fmt.Sprintf("Select(%q)", sel), false, nil, func() qframe.QFrame { return root.QF.Select(sel...) })
	}
	// Drop
	if len(names) > 1 {
		perm := rng.Perm(len(names))
		cnt := 1 + rng.Intn(len(names)-1)
		drop := map[string]bool{}
		var dl []string
		for i := 0; i < cnt; i++ {
			drop[names[perm[i]]] = true
			dl = append(dl, names[perm[i]])
		}
		want := &model.Frame{}
		for _, col := range sh.Cols {
			if !drop[col.Name] {
				want.Cols = append(want.Cols, col)
			}
		}
		check(fmt.Sprintf("Drop(%q)", dl), true, want, func() qframe.QFrame { return root.QF.Drop(dl...) })
		// the same request naming columns more than once (as many or more arguments than the frame has columns):
		// the remaining columns are the same
		rep := append([]string(nil), dl...)
		for len(rep) < len(names)+rng.Intn(3) {
			rep = append(rep, dl[rng.Intn(len(dl))])
		}
		rng.Shuffle(len(rep), func(i, j int) { rep[i], rep[j] = rep[j], rep[i] })
		check(fmt.Sprintf("Drop(%q)", rep), true, want, func() qframe.QFrame { return root.QF.Drop(rep...) })
		// no arguments: nothing is dropped
		check("Drop()", true, &model.Frame{Cols: append([]*model.Col(nil), sh.Cols...)}, func() qframe.QFrame { return root.QF.Drop() })
	}
	// Copy
	{
		src := names[rng.Intn(len(names))]
		var dst string
		switch rng.Intn(4) {
		case 0:
			dst = names[rng.Intn(len(names))]
		case 1:
			dst = src
		default:
			dst = oddNames[rng.Intn(len(oddNames))]
		}
		want := &model.Frame{Cols: append([]*model.Col(nil), sh.Cols...)}
		cp := sh.Col(src).Clone()
		cp.Name = dst
		replaced := false
		for i, col := range want.Cols {
			if col.Name == dst {
				want.Cols[i] = cp
				replaced = true
			}
		}
		if !replaced {
			want.Cols = append(want.Cols, cp)
		}
		check(fmt.Sprintf("Copy(%q, %q)", dst, src), true, want, func() qframe.QFrame { return root.QF.Copy(dst, src) })
		{
			src2 := names[rng.Intn(len(names))]
			want2 := &model.Frame{Cols: append([]*model.Col(nil), sh.Cols...)}
			cp2 := sh.Col(src2).Clone()
			cp2.Name = "second-new-column"
			want2.Cols = append(want2.Cols, cp2)
			check(fmt.Sprintf("Copy(%q, %q)", "second-new-column", src2), true, want2, func() qframe.QFrame { return root.QF.Copy("second-new-column", src2) })
		}
		check(fmt.Sprintf("Copy(%q, %q)", "newcol", "no-such-column"), false, nil, func() qframe.QFrame { return root.QF.Copy("newcol", "no-such-column") })
		check(fmt.Sprintf("Copy(%q, %q)", "no-such-column", "no-such-column"), false, nil, func() qframe.QFrame { return root.QF.Copy("no-such-column", "no-such-column") })
		illegal := []string{"", "\"q\"", "'q'", "$d", "'q'q'", "\"\"\""}[rng.Intn(6)]
		check(fmt.Sprintf("Copy(%q, %q)", illegal, src), false, nil, func() qframe.QFrame { return root.QF.Copy(illegal, src) })
	}
	// Slice
	sliceCase := func(a, b int) {
		valid := a >= 0 && a <= b && b <= n
		var want *model.Frame
		if valid {
			rowsSel := make([]int, 0, b-a)
			for r := a; r < b; r++ {
				rowsSel = append(rowsSel, r)
			}
			want = sh.Take(rowsSel)
		}
		check(fmt.Sprintf("Slice(%d, %d)", a, b), valid, want, func() qframe.QFrame { return root.QF.Slice(a, b) })
	}
	if n <= 12 {
		c.Count("slice_bounds_exhaustive_frames", 1)
		for a := -1; a <= n+1; a++ {
			for b := -1; b <= n+1; b++ {
				sliceCase(a, b)
			}
		}
	} else {
		for k := 0; k < 6; k++ {
			a, b := rng.Intn(n+3)-1, rng.Intn(n+3)-1
			if k < 3 && a > b {
				a, b = b, a
			}
			sliceCase(a, b)
		}
		sliceCase(0, n)
		sliceCase(n, n)
		sliceCase(0, n+1)
		sliceCase(-1, n)
	}
	// Slice of a slice (spare capacity behind the end must not leak)
	if n >= 4 {
		a, b := 1, n-1
		inner := root.QF.Slice(a, b)
		if inner.Err == nil {
			m := b - a
			want := sh.Take(seqRange(a, b))
			reqs = append(reqs, fmt.Sprintf("Slice(%d,%d) then out-of-range Slice(0,%d)", a, b, m+1))
			c.Eval(1)
			var r2 qframe.QFrame
			if c.GuardFail("Slice", "nested slice", func() { r2 = inner.Slice(0, m+1) }) {
				if r2.Err == nil {
					c.Fail("accepts-invalid:Slice", "Slice(%d,%d).Slice(0,%d) accepted although the frame has %d rows (reaches into the parent's rows)", a, b, m+1, m)
				}
			}
			got, oerr := model.ObserveGuard(inner)
			if oerr == nil {
				if d := model.Diff(want, got); d != "" {
					c.Fail("differs:Slice", "Slice(%d,%d): %s", a, b, d)
				}
			}
		}
	}
}

func seqRange(a, b int) []int {
	out := make([]int, 0, b-a)
	for i := a; i < b; i++ {
		out = append(out, i)
	}
	return out
}
