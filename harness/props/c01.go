package props

import (
	"bytes"
	"fmt"
	"math/rand"
	"strings"

	"github.com/tobgu/qframe"
	qcsv "github.com/tobgu/qframe/config/csv"
	"github.com/tobgu/qframe/config/eval"
	"github.com/tobgu/qframe/config/groupby"
	qsql "github.com/tobgu/qframe/config/sql"
	"github.com/tobgu/qframe/types"

	"qverif/fw"
	"qverif/hooks"
	"qverif/memsql"
	"qverif/model"
)

func init() {
	fw.Register(&fw.Property{
		ID:    "C01",
		Level: "exploration",
		Rule: "case = one history: 1-3 derived root frames, then 40 (quick) / 80 (thorough) steps; each step applies a random operation (Filter with any clause, Sort, Slice, Select, Drop, Copy, Apply/FilteredApply programs incl. built-in ToUpper, Eval, WithRowNums, Distinct, GroupBy->Aggregate with input-scribbling user functions, GroupBy->QFrames, typed views whose Slice() is scribbled over, operations that fail (invalid Eval/Apply/Filter/Sort/Select/Copy/Slice/Distinct/Aggregate/FilteredApply requests, whose result must carry Err and leave everything else untouched), ToCSV plain, without header and with an explicit permuted csv.Columns order / ToJSON / ToSQL / String/Equals/ByteSize/ColumnTypeMap/ColumnNames) " +
			"to a random member of the growing family (frames, groupers, views, strings obtained through ItemAt); after EVERY step every member is re-observed and compared with the snapshot taken when it was created (Err, Len, names, order, types, every cell; alias canaries for strings returned by views); structural invariants are checked through the hook; " +
			"evaluation = one re-inspection of one member after one step; non-trivial history = a step produced a result sharing the index array with an older member and a later step operated on one of the two; distinct by history (seeded case number + operation log)",
		Assumptions: []string{
			"the caller does not mutate slices passed to New and does not write through *string pointers handed out by views/callbacks; Append and Rolling are outside the property's operation list",
			"sharing of index arrays is measured through the verif hook; without it non-triviality is judged by history length only",
		},
		Stages:  stages(2500, 40000, 300, 0),
		RunCase: runC01,
	})
}

type c01Member struct {
	kind   string // frame | grouper | view | strings
	born   int
	op     string
	qf     qframe.QFrame
	snap   *model.Frame
	errTxt string

	g      qframe.Grouper
	gSnaps []*model.Frame
	gCount *model.Frame

	viewCol  string
	viewKind model.Kind
	iv       qframe.IntView
	fv       qframe.FloatView
	bv       qframe.BoolView
	sv       qframe.StringView
	ev       qframe.EnumView
	vSnap    *model.Col

	strs   []*string // pointers/strings handed out by views
	clones []string
	strVal []string // plain Go strings obtained by dereferencing (alias the column bytes)
	addr   uintptr
	meta   model.Meta
}

func snapFrame(qf qframe.QFrame) (*model.Frame, string) {
	if qf.Err != nil {
		return nil, qf.Err.Error()
	}
	sh, err := model.ObserveGuard(qf)
	if err != nil {
		return nil, "OBSERVE-FAILED: " + err.Error()
	}
	return sh, ""
}

func (m *c01Member) check() string {
	switch m.kind {
	case "frame":
		sh, e := snapFrame(m.qf)
		if e != m.errTxt {
			return fmt.Sprintf("Err changed from %q to %q", m.errTxt, e)
		}
		if m.snap != nil {
			if d := model.Diff(m.snap, sh); d != "" {
				return d
			}
			if m.qf.Len() != m.snap.Len() {
				return fmt.Sprintf("Len() changed from %d to %d", m.snap.Len(), m.qf.Len())
			}
		}
	case "grouper":
		frames, err := m.g.QFrames()
		if err != nil {
			return "QFrames() now fails: " + err.Error()
		}
		if len(frames) != len(m.gSnaps) {
			return fmt.Sprintf("number of groups changed from %d to %d", len(m.gSnaps), len(frames))
		}
		for i, fr := range frames {
			sh, e := snapFrame(fr)
			if e != "" {
				return "group frame: " + e
			}
			if d := model.Diff(m.gSnaps[i], sh); d != "" {
				return fmt.Sprintf("group %d: %s", i, d)
			}
		}
		if m.gCount != nil {
			sh, e := snapFrame(m.g.Aggregate(qframe.Aggregation{Fn: "count", Column: m.gCount.Cols[len(m.gCount.Cols)-1].Name}))
			if e != "" {
				return "Aggregate(count): " + e
			}
			if d := model.Diff(m.gCount, sh); d != "" {
				return "Aggregate(count): " + d
			}
		}
	case "view":
		cur := model.NewCol(m.vSnap.Name, m.viewKind, 0)
		switch m.viewKind {
		case model.KInt:
			cur.I = m.iv.Slice()
		case model.KFloat:
			cur.F = m.fv.Slice()
		case model.KBool:
			cur.B = m.bv.Slice()
		case model.KString:
			cur.S = m.sv.Slice()
		default:
			for _, s := range m.ev.Slice() {
				if s == nil {
					cur.S = append(cur.S, nil)
				} else {
					cur.S = append(cur.S, model.StrP(*s))
				}
			}
		}
		if cur.Len() != m.vSnap.Len() {
			return fmt.Sprintf("view length changed from %d to %d", m.vSnap.Len(), cur.Len())
		}
		for r := 0; r < cur.Len(); r++ {
			if !model.CellEq(m.vSnap, r, cur, r) {
				return fmt.Sprintf("view of %q row %d changed from %s to %s", m.vSnap.Name, r, m.vSnap.CellString(r), cur.CellString(r))
			}
		}
	case "strings":
		for i, p := range m.strs {
			if *p != m.clones[i] {
				return fmt.Sprintf("string handed out by a view changed from %q to %q", m.clones[i], *p)
			}
			if m.strVal[i] != m.clones[i] {
				return fmt.Sprintf("Go string aliasing column storage changed from %q to %q", m.clones[i], m.strVal[i])
			}
		}
	}
	return ""
}

func runC01(c *fw.Case) {
	rng := c.Rng
	steps := 40
	if c.Thorough() {
		steps = 80
	}
	maxRows := 60
	if c.Thorough() && rng.Intn(10) == 0 {
		maxRows = 1500
	} else if rng.Intn(12) == 0 {
		maxRows = 300
	}
	var family []*c01Member
	var log []string
	c.DescribeLazy(func() interface{} {
		l := log
		if len(l) > 90 {
			l = l[len(l)-90:]
		}
		return map[string]interface{}{"history": l, "members": len(family)}
	})
	addFrame := func(qf qframe.QFrame, op string, step int, meta model.Meta) *c01Member {
		m := &c01Member{kind: "frame", qf: qf, op: op, born: step, meta: meta}
		m.snap, m.errTxt = snapFrame(qf)
		if strings.HasPrefix(m.errTxt, "OBSERVE-FAILED") {
			c.Fail("result-unobservable", "step %d (%s): result cannot be observed: %s", step, op, m.errTxt)
		}
		if hooks.Available && qf.Err == nil {
			m.addr = hooks.Index(qf).Addr
		}
		if m.snap != nil && meta != nil {
			meta.Apply(m.snap)
		}
		family = append(family, m)
		return m
	}
	nroots := 1 + rng.Intn(3)
	for i := 0; i < nroots; i++ {
		root, err := model.MakeRoot(rng, model.GenOpts{Rows: model.PickRows(rng, maxRows), MinCols: 2, MaxCols: 6, ID: true, NoCR: true, UTF8: true, SmallInts: rng.Intn(2) == 0}, 4, true)
		if err != nil {
			continue
		}
		c.Count("shape:"+root.Shape, 1)
		m := addFrame(root.QF, fmt.Sprintf("root %d via %s %v", i, root.Path, root.Ops), 0, model.MetaOf(root.Shadow))
		m.snap = root.Shadow
	}
	if len(family) == 0 {
		c.Count("root_build_failed", 1)
		return
	}
	sharing := map[*c01Member]bool{}
	nontrivial := false
	ctx := newCtx()

	for step := 1; step <= steps && !c.Failed(); step++ {
		// pick a frame member with a usable frame
		var cands []*c01Member
		for _, m := range family {
			if m.kind == "frame" && m.snap != nil && len(m.snap.Cols) > 0 {
				cands = append(cands, m)
			}
		}
		if len(cands) == 0 {
			break
		}
		src := cands[rng.Intn(len(cands))]
		if rng.Intn(3) == 0 {
			src = cands[len(cands)-1-rng.Intn((len(cands)+2)/3)] // bias towards recent members
		}
		sh := src.snap
		qf := src.qf
		names := sh.Names()
		n := sh.Len()
		meta := model.Meta{}
		for k, v := range src.meta {
			meta[k] = v
		}
		if sharing[src] {
			nontrivial = true
		}
		var op string
		var results []qframe.QFrame
		argChanged := ""
		newMembers := []*c01Member{}
		pv, stack := fw.Guard(func() {
			switch rng.Intn(22) {
			case 20, 21:
				// operations that fail: the receiver (and everything else) stays as it was, the result carries Err
				pick := func(k model.Kind) string {
					for _, col := range sh.Cols {
						if col.Kind == k && col.Name != model.IDCol {
							return col.Name
						}
					}
					return ""
				}
				iC, fC := pick(model.KInt), pick(model.KFloat)
				any1 := names[rng.Intn(len(names))]
				type inv struct {
					name string
					f    func() qframe.QFrame
				}
				invs := []inv{
					{"Eval(col + unknown column)", func() qframe.QFrame {
						return qf.Eval("ev", qframe.Expr("+", types.ColumnName(any1), types.ColumnName("no-such-col")), eval.EvalContext(ctx))
					}},
					{"Eval(unknown column + col)", func() qframe.QFrame {
						return qf.Eval(any1, qframe.Expr("+", types.ColumnName("no-such-col"), types.ColumnName(any1)), eval.EvalContext(ctx))
					}},
					{"Eval(unknown function)", func() qframe.QFrame {
						return qf.Eval("ev", qframe.Expr("nosuchfn", types.ColumnName(any1)), eval.EvalContext(ctx))
					}},
					{"Eval(unknown column onto itself)", func() qframe.QFrame { return qf.Eval("no-such-col", qframe.Val(types.ColumnName("no-such-col"))) }},
					{"Apply(unknown source)", func() qframe.QFrame {
						return qf.Apply(qframe.Instruction{Fn: func(x int) int { return x }, DstCol: "ap", SrcCol1: "no-such-col"})
					}},
					{"Apply(valid, then function of the wrong type)", func() qframe.QFrame {
						return qf.Apply(qframe.Instruction{Fn: 1, DstCol: "ap"}, qframe.Instruction{Fn: func(x complex128) int { return 1 }, DstCol: any1, SrcCol1: any1})
					}},
					{"Filter(unknown column)", func() qframe.QFrame { return qf.Filter(qframe.Filter{Column: "no-such-col", Comparator: "=", Arg: 1}) }},
					{"Filter(Or(valid, unsupported comparator))", func() qframe.QFrame {
						return qf.Filter(qframe.Or(qframe.Filter{Column: any1, Comparator: "isnotnull"}, qframe.Not(qframe.Filter{Column: any1, Comparator: "~~", Arg: 1})))
					}},
					{"Sort(col, unknown column)", func() qframe.QFrame { return qf.Sort(qframe.Order{Column: any1}, qframe.Order{Column: "no-such-col"}) }},
					{"Select(col, unknown column)", func() qframe.QFrame { return qf.Select(any1, "no-such-col") }},
					{"Copy(unknown source)", func() qframe.QFrame { return qf.Copy("cp", "no-such-col") }},
					{"Copy(illegal destination)", func() qframe.QFrame { return qf.Copy("$x", any1) }},
					{"Slice(out of range)", func() qframe.QFrame { return qf.Slice(0, n+1) }},
					{"Distinct(unknown column)", func() qframe.QFrame { return qf.Distinct(groupby.Columns(any1, "no-such-col")) }},
					{"GroupBy(col).Aggregate(unknown column)", func() qframe.QFrame {
						return qf.GroupBy(groupby.Columns(any1)).Aggregate(qframe.Aggregation{Fn: "count", Column: "no-such-col"})
					}},
					{"GroupBy(unknown column).Aggregate", func() qframe.QFrame {
						return qf.GroupBy(groupby.Columns("no-such-col")).Aggregate(qframe.Aggregation{Fn: "count", Column: any1})
					}},
					{"FilteredApply(invalid clause)", func() qframe.QFrame {
						return qf.FilteredApply(qframe.Filter{Column: "no-such-col", Comparator: "=", Arg: 1}, qframe.Instruction{Fn: 1, DstCol: any1})
					}},
					{"WithRowNums(illegal name)", func() qframe.QFrame { return qf.WithRowNums("\"q\"") }},
				}
				if iC != "" && fC != "" {
					invs = append(invs,
						inv{"Eval(int column + float column)", func() qframe.QFrame {
							return qf.Eval("ev", qframe.Expr("+", types.ColumnName(iC), types.ColumnName(fC)), eval.EvalContext(ctx))
						}},
						inv{"Eval(nested: (int column + float column) * 2)", func() qframe.QFrame {
							return qf.Eval(iC, qframe.Expr("*", qframe.Expr("+", types.ColumnName(iC), types.ColumnName(fC)), 2), eval.EvalContext(ctx))
						}},
						inv{"Apply(two-argument function over int and float columns)", func() qframe.QFrame {
							return qf.Apply(qframe.Instruction{Fn: func(x, y int) int { return x }, DstCol: "ap", SrcCol1: iC, SrcCol2: fC})
						}})
				}
				iv := invs[rng.Intn(len(invs))]
				op = "Failing:" + iv.name
				results = append(results, iv.f())
			case 0, 1:
				cl := model.GenClause(rng, sh, 1+rng.Intn(3))
				if cl == nil {
					return
				}
				op = "Filter(" + cl.String() + ")"
				results = append(results, qf.Filter(cl.Real(sh.Kinds())))
			case 2, 3:
				orders := genOrders(rng, sh, "")
				if orders == nil {
					return
				}
				op = fmt.Sprintf("Sort(%+v)", orders)
				results = append(results, qf.Sort(orders...))
			case 4:
				a := rng.Intn(n + 1)
				b := a + rng.Intn(n-a+1)
				op = fmt.Sprintf("Slice(%d,%d)", a, b)
				results = append(results, qf.Slice(a, b))
			case 5:
				perm := rng.Perm(len(names))
				sel := []string{}
				for _, p := range perm[:1+rng.Intn(len(names))] {
					sel = append(sel, names[p])
				}
				op = fmt.Sprintf("Select(%q)", sel)
				results = append(results, qf.Select(sel...))
			case 6:
				d := names[rng.Intn(len(names))]
				if len(names) < 2 {
					return
				}
				op = fmt.Sprintf("Drop(%q)", d)
				results = append(results, qf.Drop(d))
			case 7:
				s, d := names[rng.Intn(len(names))], []string{"cp", names[rng.Intn(len(names))], "k"}[rng.Intn(3)]
				op = fmt.Sprintf("Copy(%q,%q)", d, s)
				results = append(results, qf.Copy(d, s))
				if m, ok := meta[s]; ok && d != s {
					cp := *m
					cp.Name = d
					meta[d] = &cp
				}
			case 8, 9, 10:
				prog := genProgram(rng, sh)
				reals := make([]qframe.Instruction, len(prog))
				work := &model.Frame{Cols: append([]*model.Col(nil), sh.Cols...)}
				for i, in := range prog {
					sk := model.KInt
					if in.src1 != "" {
						sk = work.Col(in.src1).Kind
					}
					reals[i] = in.real(sk)
					in.exec(work, nil, false)
					delete(meta, in.dst)
				}
				if rng.Intn(3) == 0 {
					if cl := model.GenClause(rng, sh, 1+rng.Intn(2)); cl != nil {
						op = "FilteredApply(" + cl.String() + "; " + progString(prog) + ")"
						results = append(results, qf.FilteredApply(cl.Real(sh.Kinds()), reals...))
						return
					}
				}
				op = "Apply " + progString(prog)
				results = append(results, qf.Apply(reals...))
			case 11:
				g := &exprGen{rng: rng, sh: sh}
				e := g.gen([]model.Kind{model.KInt, model.KFloat, model.KBool, model.KString}[rng.Intn(4)], 1+rng.Intn(4))
				if e == nil {
					return
				}
				dst := []string{"ev", names[rng.Intn(len(names))]}[rng.Intn(2)]
				if dst == model.IDCol {
					dst = "ev"
				}
				op = fmt.Sprintf("Eval(%q, %s)", dst, e.String())
				delete(meta, dst)
				results = append(results, qf.Eval(dst, e.real(), eval.EvalContext(ctx)))
			case 12:
				op = "WithRowNums(rn)"
				results = append(results, qf.WithRowNums("rn"))
			case 13:
				keys := pickKeysAny(rng, sh)
				op = fmt.Sprintf("Distinct(%q)", keys)
				results = append(results, qf.Distinct(groupby.Columns(keys...), groupby.Null(rng.Intn(2) == 0)))
			case 14, 15:
				keys := pickKeysAny(rng, sh)
				keysCopy := append([]string(nil), keys...)
				// one option value (holding the caller's slice) configures the Grouper and, afterwards, a Distinct
				keyOpt := groupby.Columns(keys...)
				g := qf.GroupBy(keyOpt, groupby.Null(rng.Intn(2) == 0))
				if g.Err != nil {
					return
				}
				defer func() {
					_ = qf.Distinct(keyOpt, groupby.Null(rng.Intn(2) == 0))
					if fmt.Sprint(keys) != fmt.Sprint(keysCopy) {
						argChanged = fmt.Sprintf("the slice of column names passed to groupby.Columns changed from %q to %q", keysCopy, keys)
					}
				}()
				// aggregate with user functions that scribble over their input
				var aggs []qframe.Aggregation
				for _, col := range sh.Cols {
					used := false
					for _, k := range keys {
						used = used || k == col.Name
					}
					if used || rng.Intn(2) == 0 {
						continue
					}
					switch col.Kind {
					case model.KInt:
						aggs = append(aggs, qframe.Aggregation{Column: col.Name, Fn: func(v []int) int {
							r := 0
							for i := range v {
								r += v[i]
								v[i] = -999
							}
							return r
						}})
					case model.KFloat:
						aggs = append(aggs, qframe.Aggregation{Column: col.Name, Fn: func(v []float64) float64 {
							for i := range v {
								v[i] = -1
							}
							return float64(len(v))
						}})
					case model.KBool:
						aggs = append(aggs, qframe.Aggregation{Column: col.Name, Fn: func(v []bool) bool {
							for i := range v {
								v[i] = !v[i]
							}
							return len(v) > 1
						}})
					default:
						aggs = append(aggs, qframe.Aggregation{Column: col.Name, Fn: func(v []*string) *string {
							var first *string
							if len(v) > 0 && v[0] != nil {
								first = model.StrP(*v[0])
							}
							for i := range v {
								v[i] = nil
							}
							return first
						}})
					}
				}
				op = fmt.Sprintf("GroupBy(%q).Aggregate(%d scribbling user functions)", keys, len(aggs))
				results = append(results, g.Aggregate(aggs...))
				// the grouper itself becomes a member
				gm := &c01Member{kind: "grouper", g: g, op: op, born: step}
				frames, err := g.QFrames()
				if err == nil {
					for i, fr := range frames {
						sfr, e := snapFrame(fr)
						if e != "" {
							gm = nil
							break
						}
						gm.gSnaps = append(gm.gSnaps, sfr)
						if i < 3 && rng.Intn(2) == 0 {
							results = append(results, fr)
						}
					}
					if gm != nil {
						cntCol := names[rng.Intn(len(names))]
						isKey := false
						for _, k := range keys {
							isKey = isKey || k == cntCol
						}
						if !isKey {
							if cs, e := snapFrame(g.Aggregate(qframe.Aggregation{Fn: "count", Column: cntCol})); e == "" {
								gm.gCount = cs
							}
						}
						newMembers = append(newMembers, gm)
					}
				}
			case 16, 17:
				// typed view: keep it, scribble over what Slice() returns, keep strings handed out by ItemAt
				col := sh.Cols[rng.Intn(len(sh.Cols))]
				vm := &c01Member{kind: "view", viewCol: col.Name, viewKind: col.Kind, op: "view of " + col.Name, born: step}
				vm.vSnap = col.Clone()
				op = fmt.Sprintf("%sView(%q) + Slice() scribbled", strings.Title(col.Kind.String()), col.Name)
				switch col.Kind {
				case model.KInt:
					vm.iv = qf.MustIntView(col.Name)
					s := vm.iv.Slice()
					for i := range s {
						s[i] = -12345
					}
				case model.KFloat:
					vm.fv = qf.MustFloatView(col.Name)
					s := vm.fv.Slice()
					for i := range s {
						s[i] = -1.25
					}
				case model.KBool:
					vm.bv = qf.MustBoolView(col.Name)
					s := vm.bv.Slice()
					for i := range s {
						s[i] = !s[i]
					}
				case model.KString:
					vm.sv = qf.MustStringView(col.Name)
					s := vm.sv.Slice()
					for i := range s {
						s[i] = nil
					}
					sm := &c01Member{kind: "strings", op: "strings from StringView.ItemAt of " + col.Name, born: step}
					for i := 0; i < n && i < 40; i++ {
						if p := vm.sv.ItemAt(i); p != nil {
							sm.strs = append(sm.strs, p)
							sm.strVal = append(sm.strVal, *p)
							sm.clones = append(sm.clones, strings.Clone(*p))
						}
					}
					newMembers = append(newMembers, sm)
				default:
					vm.ev = qf.MustEnumView(col.Name)
					s := vm.ev.Slice()
					for i := range s {
						s[i] = nil
					}
					sm := &c01Member{kind: "strings", op: "strings from EnumView.ItemAt of " + col.Name, born: step}
					for i := 0; i < n && i < 40; i++ {
						if p := vm.ev.ItemAt(i); p != nil {
							sm.strs = append(sm.strs, p)
							sm.strVal = append(sm.strVal, *p)
							sm.clones = append(sm.clones, strings.Clone(*p))
						}
					}
					newMembers = append(newMembers, sm)
				}
				newMembers = append(newMembers, vm)
			default:
				// read-only observers; scribble over returned slices and maps
				op = "ToCSV/ToJSON/String/Equals/ByteSize/ColumnTypeMap/ColumnNames/ColumnTypes"
				var b bytes.Buffer
				_ = qf.ToCSV(&b)
				// every ToCSV option: the header switch and an explicit (permuted) column order; the slice passed in is scribbled over afterwards
				order := make([]string, len(names))
				for i, p := range rng.Perm(len(names)) {
					order[i] = names[p]
				}
				_ = qf.ToCSV(&b, qcsv.Columns(order), qcsv.Header(rng.Intn(2) == 0))
				for i := range order {
					order[i] = "scribbled"
				}
				_ = qf.ToCSV(&b, qcsv.Header(false))
				_ = qf.ToJSON(&b)
				if rng.Intn(3) == 0 {
					sdb := memsql.New().Open()
					if tx, err := sdb.Begin(); err == nil {
						_ = qf.ToSQL(tx, qsql.Table("t"))
						_ = tx.Rollback()
					}
					sdb.Close()
				}
				_ = qf.String()
				_ = qf.ByteSize()
				other := family[rng.Intn(len(family))]
				if other.kind == "frame" && other.errTxt == "" {
					_, _ = qf.Equals(other.qf)
				}
				tm := qf.ColumnTypeMap()
				for k := range tm {
					tm[k] = types.DataType("scribbled")
				}
				cn := qf.ColumnNames()
				for i := range cn {
					cn[i] = "scribbled"
				}
				ct := qf.ColumnTypes()
				for i := range ct {
					ct[i] = types.DataType("scribbled")
				}
			}
		})
		if op == "" && pv == nil {
			continue
		}
		log = append(log, fmt.Sprintf("step %d on member#%d(born %d): %s", step, indexOf(family, src), src.born, op))
		c.Count("ops:"+opKind(strings.Fields(op + " x")[0]), 1)
		if pv != nil {
			c.Fail("panic:"+opKind(op), "step %d: %s panicked: %v\n%s", step, op, pv, clip(stack, 1200))
			break
		}
		if argChanged != "" {
			c.Fail("argument-changed:"+opKind(op), "step %d (%s): %s", step, op, argChanged)
			break
		}
		for _, r := range results {
			m := addFrame(r, op, step, meta)
			if hooks.Available && r.Err == nil && m.addr != 0 && m.addr == src.addr {
				sharing[m], sharing[src] = true, true
				c.Count("results_sharing_index_array", 1)
			}
		}
		family = append(family, newMembers...)
		// evict to keep the family bounded (never the roots)
		for len(family) > 48 {
			i := nroots + rng.Intn(len(family)-nroots)
			family = append(family[:i], family[i+1:]...)
		}
		// re-inspect every member
		for mi, m := range family {
			c.Eval(1)
			var d string
			pv, stack := fw.Guard(func() { d = m.check() })
			if pv != nil {
				c.Fail("panic:reinspect", "after step %d (%s): re-inspecting member#%d (%s, born at step %d) panicked: %v\n%s", step, op, mi, m.kind, m.born, pv, clip(stack, 800))
				break
			}
			if d != "" {
				c.Fail("changed:"+m.kind+":after-"+opKind(op), "after step %d (%s applied to member#%d): member#%d (%s born at step %d by %q) changed: %s", step, op, indexOf(family, src), mi, m.kind, m.born, clip(m.op, 120), d)
				break
			}
		}
	}
	c.Count("members_at_end", int64(len(family)))
	if nontrivial || (!hooks.Available && len(log) >= 10) {
		c.Nontrivial(c.No, strings.Join(log, "|"))
		c.Count("nontrivial_histories", 1)
	}
}

func indexOf(f []*c01Member, m *c01Member) int {
	for i, x := range f {
		if x == m {
			return i
		}
	}
	return -1
}

func pickKeysAny(rng *rand.Rand, sh *model.Frame) []string {
	names := sh.Names()
	perm := rng.Perm(len(names))
	k := 1 + rng.Intn(2)
	if k > len(names) {
		k = len(names)
	}
	keys := []string{}
	for _, p := range perm[:k] {
		keys = append(keys, names[p])
	}
	return keys
}
