// Package props contains one workload + oracle per property.
package props

import (
	"fmt"
	"sort"

	"qverif/fw"
	"qverif/model"
)

func stages(quick, thorough, race, asan int) func(tier string) []fw.Stage {
	return func(tier string) []fw.Stage {
		if tier == "quick" {
			return []fw.Stage{{Name: "main", Flavour: "ptr", Cases: quick}}
		}
		st := []fw.Stage{{Name: "main", Flavour: "ptr", Cases: thorough}}
		if race > 0 {
			st = append(st, fw.Stage{Name: "race", Flavour: "race", Cases: race})
		}
		if asan > 0 {
			st = append(st, fw.Stage{Name: "asan", Flavour: "asan", Cases: asan})
		}
		return st
	}
}

func idKey(ids []int) string {
	return fmt.Sprint(ids)
}

func sortedInts(v []int) []int {
	o := append([]int(nil), v...)
	sort.Ints(o)
	return o
}

// rowsByID maps id -> row number.
func rowsByID(f *model.Frame) map[int]int {
	m := map[int]int{}
	for i, id := range f.IDs() {
		m[id] = i
	}
	return m
}

func shapeConclude(minNonIdentityPct int64) func(tier string, counters map[string]int64, stagesRun []string) string {
	return func(tier string, c map[string]int64, _ []string) string {
		total := int64(0)
		ident := int64(0)
		for k, v := range c {
			if len(k) > 6 && k[:6] == "shape:" {
				total += v
				if k == "shape:identity" || k == "shape:unknown" {
					ident += v
				}
			}
		}
		if c["shape:unknown"] == total {
			return "" // hooks unavailable: shape cannot be measured
		}
		if total > 0 && (total-ident)*100 < total*minNonIdentityPct {
			return fmt.Sprintf("only %d of %d frames had a non-identity physical index", total-ident, total)
		}
		return ""
	}
}
