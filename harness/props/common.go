// Package props contains one workload + oracle per property.
package props

import (
	"fmt"
	"math/rand"
	"sort"

	"github.com/tobgu/qframe"
	"github.com/tobgu/qframe/config/groupby"
	"github.com/tobgu/qframe/config/newqf"

	"qverif/fw"
	"qverif/model"
)

func stages(quick, thorough, race, asan int) func(tier string) []fw.Stage {
	return func(tier string) []fw.Stage {
		if tier == "quick" {
			return []fw.Stage{{Name: "main", Flavour: "ptr", Cases: quick}}
		}
		st := []fw.Stage{{Name: "main", Flavour: "ptr", Cases: thorough}}
		if race > 0 {
			st = append(st, fw.Stage{Name: "race", Flavour: "race", Cases: race})
		}
		if asan > 0 {
			st = append(st, fw.Stage{Name: "asan", Flavour: "asan", Cases: asan})
		}
		return st
	}
}

func idKey(ids []int) string {
	return fmt.Sprint(ids)
}

func sortedInts(v []int) []int {
	o := append([]int(nil), v...)
	sort.Ints(o)
	return o
}

// rowsByID maps id -> row number.
func rowsByID(f *model.Frame) map[int]int {
	m := map[int]int{}
	for i, id := range f.IDs() {
		m[id] = i
	}
	return m
}

func shapeConclude(minNonIdentityPct int64) func(tier string, counters map[string]int64, stagesRun []string) string {
	return func(tier string, c map[string]int64, _ []string) string {
		total := int64(0)
		ident := int64(0)
		for k, v := range c {
			if len(k) > 6 && k[:6] == "shape:" {
				total += v
				if k == "shape:identity" || k == "shape:unknown" {
					ident += v
				}
			}
		}
		if c["shape:unknown"] == total {
			return "" // hooks unavailable: shape cannot be measured
		}
		if total > 0 && (total-ident)*100 < total*minNonIdentityPct {
			return fmt.Sprintf("only %d of %d frames had a non-identity physical index", total-ident, total)
		}
		return ""
	}
}

// aggregateDerive replaces the root by GroupBy(one key).Aggregate(min of __id, first value of every other column),
// so that the frame under test is one produced by Aggregate. Returns nil when that is not possible.
func aggregateDerive(rng *rand.Rand, root *model.Root) *model.Root {
	sh := root.Shadow
	if sh.Col(model.IDCol) == nil || sh.Len() == 0 || len(sh.Cols) < 3 {
		return nil
	}
	var key string
	for _, p := range rng.Perm(len(sh.Cols)) {
		if sh.Cols[p].Name != model.IDCol {
			key = sh.Cols[p].Name
			break
		}
	}
	aggs := []qframe.Aggregation{{Fn: "min", Column: model.IDCol}}
	for _, col := range sh.Cols {
		if col.Name == key || col.Name == model.IDCol {
			continue
		}
		if rng.Intn(3) == 0 {
			continue // aggregate only a subset: the result then has fewer columns than its source
		}
		switch col.Kind {
		case model.KInt:
			aggs = append(aggs, qframe.Aggregation{Column: col.Name, Fn: func(v []int) int { return v[0] }})
		case model.KFloat:
			aggs = append(aggs, qframe.Aggregation{Column: col.Name, Fn: func(v []float64) float64 { return v[0] }})
		case model.KBool:
			aggs = append(aggs, qframe.Aggregation{Column: col.Name, Fn: func(v []bool) bool { return v[0] }})
		default:
			aggs = append(aggs, qframe.Aggregation{Column: col.Name, Fn: func(v []*string) *string {
				if v[0] == nil {
					return nil
				}
				s := *v[0]
				return &s
			}})
		}
	}
	rng.Shuffle(len(aggs), func(i, j int) { aggs[i], aggs[j] = aggs[j], aggs[i] })
	var res qframe.QFrame
	if pv, _ := fw.Guard(func() { res = root.QF.GroupBy(groupby.Columns(key), groupby.Null(true)).Aggregate(aggs...) }); pv != nil || res.Err != nil {
		return nil
	}
	obs, err := model.Observe(res) // deliberately without the invariant hook: the operation under test must reveal a problem
	if err != nil {
		return nil
	}
	meta := model.MetaOf(sh)
	for name, m := range meta {
		if name != key && m.Kind == model.KEnum {
			delete(meta, name)
		}
	}
	meta.Apply(obs)
	return &model.Root{Shadow: obs, QF: res, Path: root.Path, Ops: append(append([]string{}, root.Ops...), fmt.Sprintf("GroupBy(%q).Aggregate(min __id, first of the rest)", key)), Shape: model.IndexShape(res)}
}

func newqfEnums(m map[string][]string) newqf.ConfigFunc { return newqf.Enums(m) }
