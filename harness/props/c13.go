package props

import (
	"bytes"
	"fmt"
	"math"
	"strings"

	"github.com/tobgu/qframe"
	"github.com/tobgu/qframe/config/csv"

	"qverif/fw"
	"qverif/model"
)

func init() {
	fw.Register(&fw.Property{
		ID:    "C13",
		Level: "exploration",
		Rule: "case = one derived frame with >=1 column (strings over all bytes except CR: quotes, delimiters, line feeds, blanks at the ends, \\., invalid UTF-8; floats from the hostile pool incl. +-Inf, -0, subnormals and random bit patterns; nulls/NaN; single-column frames with empty cells; zero rows) " +
			"written by ToCSV under random writer options (Header true/false, Columns(order)) and read back by ReadCSV with the column types and enum values declared, for both EmptyNull settings; " +
			"evaluation = one write/read round trip compared cell by cell (floats by bit pattern); non-trivial = frame with a cell that forces quoting or a non-integral float, on a non-identity index; distinct by written bytes + options",
		Assumptions: []string{
			"strings and names contain no CR; strict enum columns with nulls are read back with EmptyNull unless \"\" is declared",
			"null strings return as \"\" without EmptyNull, all empty strings return as null with EmptyNull",
		},
		Stages:   stages(20000, 4000000, 0, 0),
		RunCase:  runC13,
		Conclude: shapeConclude(35),
	})
}

func runC13(c *fw.Case) {
	rng := c.Rng
	rows := model.PickRows(rng, 120)
	if rng.Intn(12) == 0 {
		rows = 0
	}
	o := model.GenOpts{Rows: rows, MinCols: 1, MaxCols: 5, NoCR: true, ID: rng.Intn(2) == 0,
		Names: []string{"a", "b", "c", "d", "x y", "q\"r", "n,m", "l\nf", "é", " lead", "trail ", "1", "\\."}}
	if rng.Intn(5) == 0 {
		o.MaxCols = 1
		o.ID = false
	}
	var root *model.Root
	var err error
	if c.No%25 == 9 {
		// an all-string frame whose first row repeats the column names (a data row that looks like a header line)
		ncols := 1 + rng.Intn(4)
		names := []string{"key", "value", "0", "1", "name", "id"}
		rng.Shuffle(len(names), func(i, j int) { names[i], names[j] = names[j], names[i] })
		f := &model.Frame{}
		n := 2 + rng.Intn(6)
		for i := 0; i < ncols; i++ {
			col := model.NewCol(names[i], model.KString, n)
			for r := 0; r < n; r++ {
				col.S[r] = model.StrP(fmt.Sprintf("%s%d", names[i], r))
			}
			col.S[0] = model.StrP(names[i])
			f.Cols = append(f.Cols, col)
		}
		root, err = model.MakeRootFrom(rng, f, 0, false)
		c.Count("frames_whose_first_row_equals_the_names", 1)
	} else {
		root, err = model.MakeRoot(rng, o, 4, true)
		if err == nil && rng.Intn(8) == 0 {
			if ar := aggregateDerive(rng, root); ar != nil {
				root = ar
				c.Count("roots_produced_by_aggregate", 1)
			}
		}
	}
	if err != nil || len(root.Shadow.Cols) == 0 {
		c.Count("root_build_failed", 1)
		return
	}
	sh := root.Shadow
	c.Count("shape:"+root.Shape, 1)
	for _, col := range sh.Cols {
		if strings.ContainsAny(col.Name, "\r") {
			return
		}
	}
	var written []byte
	var opts string
	c.DescribeLazy(func() interface{} {
		d := root.Describe(15)
		d["options"] = opts
		d["csv"] = fmt.Sprintf("%q", clip(string(written), 1000))
		return d
	})
	for round := 0; round < 2; round++ {
		emptyNull := round == 1
		header := rng.Intn(4) > 0
		names := sh.Names()
		order := names
		var orderArg []string
		var wopts []csv.ToConfigFunc
		if !header {
			wopts = append(wopts, csv.Header(false))
		}
		if rng.Intn(3) == 0 {
			perm := rng.Perm(len(names))
			order = make([]string, len(names))
			for i, p := range perm {
				order[i] = names[p]
			}
			// the caller keeps using its slice: it is handed over as it is and compared with a copy afterwards
			orderArg = append([]string(nil), order...)
			wopts = append(wopts, csv.Columns(orderArg))
		}
		// strict enums with nulls need EmptyNull unless "" is declared
		for _, col := range sh.Cols {
			if col.Strict() && model.EnumRank(col, "") < 0 {
				for _, s := range col.S {
					if s == nil {
						emptyNull = true
					}
				}
			}
		}
		opts = fmt.Sprintf("Header(%v) Columns(%q) read back with EmptyNull(%v)", header, order, emptyNull)
		c.Eval(1)
		var buf bytes.Buffer
		var werr error
		if !c.GuardFail("tocsv", "ToCSV", func() {
			if orderArg != nil && rng.Intn(2) == 0 {
				// the same option values write twice; the second output is examined
				_ = root.QF.ToCSV(&bytes.Buffer{}, wopts...)
			}
			werr = root.QF.ToCSV(&buf, wopts...)
		}) {
			return
		}
		if orderArg != nil && fmt.Sprintf("%q", orderArg) != fmt.Sprintf("%q", order) {
			c.Fail("argument-changed:Columns", "ToCSV changed the slice passed to csv.Columns from %q to %q", order, orderArg)
			return
		}
		if werr != nil {
			c.Fail("tocsv-err", "ToCSV(%s) failed: %v", opts, werr)
			return
		}
		written = append([]byte(nil), buf.Bytes()...)
		// expected frame
		want := &model.Frame{}
		special := false
		for _, name := range order {
			src := sh.Col(name)
			col := src.Clone()
			switch col.Kind {
			case model.KString, model.KEnum:
				for r, s := range col.S {
					switch {
					case s == nil && !emptyNull:
						col.S[r] = model.StrP("")
					case s != nil && *s == "" && emptyNull:
						col.S[r] = nil
					}
					if s != nil && strings.ContainsAny(*s, "\",\n") {
						special = true
					}
				}
			case model.KFloat:
				for _, v := range col.F {
					if !math.IsNaN(v) && v != math.Trunc(v) {
						special = true
					}
				}
			}
			want.Cols = append(want.Cols, col)
		}
		typs := map[string]string{}
		enums := map[string][]string{}
		for _, col := range sh.Cols {
			typs[col.Name] = col.Kind.String()
			if col.Strict() {
				enums[col.Name] = append([]string(nil), col.EnumVals...)
			}
		}
		ropts := []csv.ConfigFunc{csv.Types(typs), csv.EmptyNull(emptyNull)}
		if len(enums) > 0 {
			ropts = append(ropts, csv.EnumValues(enums))
		}
		if !header {
			ropts = append(ropts, csv.Headers(append([]string(nil), order...)))
		}
		var back qframe.QFrame
		if !c.GuardFail("readcsv", "ReadCSV(ToCSV(f))", func() {
			if rng.Intn(2) == 0 {
				// the same option values (Types, EnumValues, Headers) read twice; the second frame is examined
				_ = qframe.ReadCSV(bytes.NewReader(written), ropts...)
			}
			back = qframe.ReadCSV(bytes.NewReader(written), ropts...)
		}) {
			return
		}
		if special && root.Shape != "identity" {
			c.Nontrivial(string(written), opts)
			c.Count("nontrivial_round_trips", 1)
		}
		single := ""
		if len(sh.Cols) == 1 {
			single = ":single-column"
		}
		if back.Err != nil {
			c.Fail("readback-err"+single, "ReadCSV rejected what ToCSV(%s) wrote: %v", opts, back.Err)
			return
		}
		got, oerr := model.ObserveGuard(back)
		if oerr != nil {
			c.Fail("observe", "%v", oerr)
			return
		}
		if d := model.Diff(want, got); d != "" {
			c.Fail("differs"+single+":"+firstDiffKind(want, got), "ToCSV(%s) -> ReadCSV differs from the frame: %s", opts, d)
			return
		}
	}
}

func firstDiffKind(want, got *model.Frame) string {
	if len(want.Cols) != len(got.Cols) {
		return "schema"
	}
	for i, wc := range want.Cols {
		gc := got.Cols[i]
		if wc.Name != gc.Name || wc.Kind != gc.Kind {
			return "schema"
		}
		if wc.Len() != gc.Len() {
			return "rows"
		}
		for r := 0; r < wc.Len(); r++ {
			if !model.CellEq(wc, r, gc, r) {
				return wc.Kind.String()
			}
		}
	}
	return "?"
}
