package props

import (
	"bytes"
	"fmt"
	"math"
	"math/rand"
	"reflect"
	"strings"

	"github.com/tobgu/qframe"
	"github.com/tobgu/qframe/config/eval"
	"github.com/tobgu/qframe/config/groupby"
	"github.com/tobgu/qframe/config/rolling"
	qsql "github.com/tobgu/qframe/config/sql"
	"github.com/tobgu/qframe/types"

	"qverif/fw"
	"qverif/memsql"
	"qverif/model"
)

func init() {
	fw.Register(&fw.Property{
		ID:    "C10",
		Level: "exploration",
		Rule: "case = one derived frame with a column of every type; (a) type-product fuzz: 60 calls whose interface{} positions (Filter.Comparator, Filter.Arg, Instruction.Fn, Aggregation.Fn, expression elements, New data, Rolling fn) are filled from pools holding every documented union member and near misses " +
			"(int64, []int32, nil, functions of neighbouring signatures, mixed []interface{}, unknown names, struct{}); verdict: no panic and Err != nil implies Len() == -1; (b) constructed misuse: a valid call with exactly one invalid element from the statement's list must give Err; " +
			"(c) stickiness: every error frame obtained is fed to every chainable operation with counting callbacks (also errors arising in the middle of one Apply/And/Or/FilteredApply/Eval call): result keeps the error text, no callback runs, GroupBy/Aggregate/QFrames pass it on, ToCSV/ToJSON/ToSQL return an error; " +
			"evaluation = one call; non-trivial = call classified known-invalid or continuation of an error frame; distinct by call text",
		Assumptions: []string{
			"documented panics are not exercised: Must*View, ItemAt out of range, integer division by zero; typed-nil function values, nil FilterClause/Expression interfaces and negative Const counts are outside the dynamic unions",
			"callbacks supplied by the harness never panic themselves",
		},
		Stages:  stages(4000, 500000, 0, 0),
		RunCase: runC10,
	})
}

type c10cb struct{ n int }

func (k *c10cb) hit() { k.n++ }

func describeVal(v interface{}) string {
	if v == nil {
		return "nil"
	}
	t := reflect.TypeOf(v)
	switch t.Kind() {
	case reflect.Func:
		return t.String()
	case reflect.Slice, reflect.Map, reflect.Struct, reflect.Ptr:
		s := fmt.Sprintf("%s%v", t.String(), v)
		if len(s) > 60 {
			s = s[:60] + "…"
		}
		return s
	}
	return fmt.Sprintf("%s(%v)", t.String(), v)
}

func comparatorPool(cb *c10cb) []interface{} {
	return []interface{}{"<", "<=", ">", ">=", "=", "!=", "in", "not in", "like", "ilike", "isnull", "isnotnull", "any_bits", "all_bits", "~=", "", "LIKE", 5, nil, 1.5, struct{}{}, []string{"<"},
		func(x int) bool { cb.hit(); return x%2 == 0 }, func(x float64) bool { cb.hit(); return x > 0 }, func(x bool) bool { cb.hit(); return x }, func(x *string) bool { cb.hit(); return x != nil },
		func(x string) bool { cb.hit(); return true }, func(x, y int) bool { cb.hit(); return x < y }, func(x, y float64) bool { cb.hit(); return x < y }, func(x, y bool) bool { cb.hit(); return x == y },
		func(x, y *string) bool { cb.hit(); return x == y }, func(x int) int { cb.hit(); return x }, func() bool { cb.hit(); return true }, func(x int64) bool { cb.hit(); return true },
		func(x int, y float64) bool { cb.hit(); return true }, func(x int) (bool, error) { cb.hit(); return true, nil }}
}

func argPool(rng *rand.Rand, names []string) []interface{} {
	s := "str"
	return []interface{}{0, 1, -1, math.MaxInt64, 1.5, math.NaN(), math.Inf(1), 2.0, true, false, "a", "", "v001", "%a%", "a(", nil, []int{1, 2}, []int{}, []string{"a", "b"}, []string{}, []float64{1, 2.5}, []float64{math.NaN()},
		[]interface{}{1, 2}, []interface{}{"a", "b"}, []interface{}{1, "a"}, []interface{}{}, []interface{}{nil}, []interface{}{1.5, 2}, []int32{1}, int64(1), uint(1), int8(1), float32(1), &s, (*string)(nil), []*string{&s},
		types.ColumnName(names[rng.Intn(len(names))]), types.ColumnName(names[rng.Intn(len(names))]), types.ColumnName("no-such-col"), types.ColumnName(""), struct{}{}, map[string]int{"a": 1}, []bool{true}, [][]int{{1}},
		func() int { return 1 }, complex(1, 1), 'x', []byte("ab")}
}

func fnPool(cb *c10cb, names []string, rng *rand.Rand) []interface{} {
	s := "c"
	return []interface{}{1, 1.5, true, "const", &s, (*string)(nil), nil, int64(1), []int{1}, struct{}{}, "ToUpper", "unknown-builtin", "", types.ColumnName(names[rng.Intn(len(names))]), types.ColumnName("no-such-col"),
		func() int { cb.hit(); return 1 }, func() float64 { cb.hit(); return 1 }, func() bool { cb.hit(); return true }, func() *string { cb.hit(); return nil }, func() string { cb.hit(); return "" }, func() int64 { cb.hit(); return 1 },
		func(x int) int { cb.hit(); return x }, func(x int) float64 { cb.hit(); return 1 }, func(x int) bool { cb.hit(); return true }, func(x int) *string { cb.hit(); return nil }, func(x int) int64 { cb.hit(); return 1 }, func(x int) string { cb.hit(); return "" },
		func(x float64) float64 { cb.hit(); return x }, func(x float64) int { cb.hit(); return 1 }, func(x float64) *string { cb.hit(); return nil }, func(x bool) bool { cb.hit(); return x }, func(x bool) int { cb.hit(); return 1 },
		func(x *string) *string { cb.hit(); return x }, func(x *string) int { cb.hit(); return 1 }, func(x *string) bool { cb.hit(); return true }, func(x *string) float64 { cb.hit(); return 1 }, func(x string) string { cb.hit(); return x },
		func(x, y int) int { cb.hit(); return x + y }, func(x, y float64) float64 { cb.hit(); return x + y }, func(x, y bool) bool { cb.hit(); return x }, func(x, y *string) *string { cb.hit(); return x },
		func(x, y int) float64 { cb.hit(); return 1 }, func(x int, y float64) int { cb.hit(); return 1 }, func(x, y, z int) int { cb.hit(); return 1 }, func(x, y *string) bool { cb.hit(); return true }}
}

func aggPool(cb *c10cb) []interface{} {
	return []interface{}{"sum", "count", "avg", "min", "max", "majority", "unknown", "", 5, nil, 1.5, struct{}{}, []string{"sum"},
		func(v []int) int { cb.hit(); return len(v) }, func(v []float64) float64 { cb.hit(); return 0 }, func(v []bool) bool { cb.hit(); return true }, func(v []*string) *string { cb.hit(); return nil },
		func(v []int) float64 { cb.hit(); return 0 }, func(v int) int { cb.hit(); return 0 }, func(v []string) string { cb.hit(); return "" }, func(v []*string) string { cb.hit(); return "" }, func() int { cb.hit(); return 0 }}
}

func pick(rng *rand.Rand, pool []interface{}) interface{} { return pool[rng.Intn(len(pool))] }

func runC10(c *fw.Case) {
	rng := c.Rng
	rows := 1 + rng.Intn(40)
	if rng.Intn(8) == 0 {
		rows = 0
	}
	// a frame with two columns of every type
	f := &model.Frame{}
	o := &model.GenOpts{NoCR: true}
	for _, k := range model.AllKinds {
		for j := 1; j <= 2; j++ {
			f.Cols = append(f.Cols, model.GenCol(rng, fmt.Sprintf("%s%d", k.String()[:1], j), k, rows, o))
		}
	}
	// e1/e2 share one declared value list so that column-column comparisons are possible
	e1, e2 := f.Col("e1"), f.Col("e2")
	e2.EnumKnown, e2.EnumVals = e1.EnumKnown, e1.EnumVals
	if e1.Strict() {
		for i := range e2.S {
			e2.S[i] = e1.S[rng.Intn(len(e1.S))]
		}
	} else {
		copy(e2.S, e1.S)
	}
	// e3: an enum over a different declared value list than e1 (reversed, extended or truncated)
	e3variant := ""
	if e1.Strict() {
		e3 := model.NewCol("e3", model.KEnum, rows)
		e3.EnumKnown = true
		vals := append([]string(nil), e1.EnumVals...)
		switch v := rng.Intn(3); {
		case v == 0 && len(vals) >= 2:
			for i, j := 0, len(vals)-1; i < j; i, j = i+1, j-1 {
				vals[i], vals[j] = vals[j], vals[i]
			}
			e3variant = "reversed"
		case v == 1 && len(vals) >= 2:
			vals = vals[:len(vals)-1]
			e3variant = "truncated"
		default:
			vals = append(vals, "e3-extra-value")
			e3variant = "extended"
		}
		e3.EnumVals = vals
		for i := range e3.S {
			if rng.Intn(4) > 0 {
				e3.S[i] = model.StrP(vals[rng.Intn(len(vals))])
			}
		}
		f.Cols = append(f.Cols, e3)
	}
	root, err := model.MakeRootFrom(rng, f, 2, false)
	if err != nil {
		c.Count("root_build_failed", 1)
		return
	}
	if rng.Intn(5) == 0 {
		// "on every frame": also frames produced by Aggregate
		id := model.NewCol(model.IDCol, model.KInt, 0)
		_ = id
		withID := &model.Root{Shadow: root.Shadow, QF: root.QF.WithRowNums(model.IDCol), Path: root.Path, Ops: root.Ops}
		if sh2, e := model.ObserveGuard(withID.QF); e == nil {
			model.MetaOf(root.Shadow).Apply(sh2)
			withID.Shadow = sh2
			if ar := aggregateDerive(rng, withID); ar != nil {
				root = ar
				c.Count("frames_produced_by_aggregate", 1)
			}
		}
	}
	qf := root.QF
	names := root.Shadow.Names()
	cb := &c10cb{}
	var calls []string
	c.DescribeLazy(func() interface{} {
		d := root.Describe(6)
		if len(calls) > 40 {
			calls = calls[len(calls)-40:]
		}
		d["last_calls"] = calls
		return d
	})
	db := memsql.New()
	sdb := db.Open()
	defer sdb.Close()
	tx, terr := sdb.Begin()
	if terr != nil {
		return
	}
	defer tx.Rollback() //nolint

	var errFrames []qframe.QFrame
	var errDescs []string

	judge := func(desc, kind string, known bool, f func() qframe.QFrame) (res qframe.QFrame, ok bool) {
		calls = append(calls, desc)
		c.Eval(1)
		c.Count("calls:"+kind, 1)
		if known {
			c.Nontrivial(desc, names[0])
			c.Count("known_invalid_calls", 1)
		}
		pv, stack := fw.Guard(func() { res = f() })
		if pv != nil {
			c.Fail("panic:"+kind, "panic in %s: %v\n%s", desc, pv, clip(stack, 1500))
			return res, false
		}
		if res.Err != nil {
			c.Count("calls_returning_err", 1)
			if l := res.Len(); l != -1 {
				c.Fail("errlen:"+kind, "%s returned Err (%v) but Len() = %d", desc, res.Err, l)
			}
			if len(errFrames) < 12 {
				errFrames = append(errFrames, res)
				errDescs = append(errDescs, desc)
			}
		} else if known {
			c.Fail("accepts-invalid:"+kind, "%s is invalid use but returned no Err (Len()=%d)", desc, res.Len())
		}
		return res, true
	}

	// ------------------------------------------------------------ (a) type-product fuzz
	comps := comparatorPool(cb)
	fns := fnPool(cb, names, rng)
	aggs := aggPool(cb)
	colOrBad := func() string {
		if rng.Intn(8) == 0 {
			return []string{"no-such-col", "", "$x", "\"q\""}[rng.Intn(4)]
		}
		return names[rng.Intn(len(names))]
	}
	dstName := func() string {
		switch rng.Intn(6) {
		case 0:
			return []string{"", "$x", "\"q\"", "'q'"}[rng.Intn(4)]
		case 1:
			return names[rng.Intn(len(names))]
		}
		return []string{"n1", "n2", "out"}[rng.Intn(3)]
	}
	for k := 0; k < 60; k++ {
		args := argPool(rng, names)
		switch rng.Intn(12) {
		case 0, 1, 2:
			fl := qframe.Filter{Column: colOrBad(), Comparator: pick(rng, comps), Arg: pick(rng, args), Inverse: rng.Intn(4) == 0}
			desc := fmt.Sprintf("Filter{Column:%q Comparator:%s Arg:%s Inverse:%v}", fl.Column, describeVal(fl.Comparator), describeVal(fl.Arg), fl.Inverse)
			var cl qframe.FilterClause = fl
			switch rng.Intn(5) {
			case 0:
				cl = qframe.Not(fl)
				desc = "Not(" + desc + ")"
			case 1:
				cl = qframe.Or(fl, qframe.Filter{Column: names[0], Comparator: pick(rng, comps), Arg: pick(rng, args)})
				desc = "Or(" + desc + ", …)"
			case 2:
				cl = qframe.And(qframe.Or(fl), fl)
				desc = "And(Or(" + desc + "), same)"
			}
			judge(desc, "Filter", false, func() qframe.QFrame { return qf.Filter(cl) })
		case 3, 4:
			in := qframe.Instruction{Fn: pick(rng, fns), DstCol: dstName()}
			switch rng.Intn(3) {
			case 1:
				in.SrcCol1 = colOrBad()
			case 2:
				in.SrcCol1, in.SrcCol2 = colOrBad(), colOrBad()
			}
			desc := fmt.Sprintf("Apply{Fn:%s Dst:%q Src1:%q Src2:%q}", describeVal(in.Fn), in.DstCol, in.SrcCol1, in.SrcCol2)
			if rng.Intn(4) == 0 {
				fl := qframe.Filter{Column: colOrBad(), Comparator: pick(rng, comps), Arg: pick(rng, args)}
				desc = "Filtered" + desc
				judge(desc, "FilteredApply", false, func() qframe.QFrame { return qf.FilteredApply(fl, in) })
			} else {
				judge(desc, "Apply", false, func() qframe.QFrame { return qf.Apply(in) })
			}
		case 5:
			ag := qframe.Aggregation{Fn: pick(rng, aggs), Column: colOrBad()}
			if rng.Intn(3) == 0 {
				ag.As = dstName()
			}
			keys := []string{}
			for j := rng.Intn(3); j > 0; j-- {
				keys = append(keys, colOrBad())
			}
			desc := fmt.Sprintf("GroupBy(%q).Aggregate{Fn:%s Column:%q As:%q}", keys, describeVal(ag.Fn), ag.Column, ag.As)
			judge(desc, "Aggregate", false, func() qframe.QFrame {
				return qf.GroupBy(groupby.Columns(keys...), groupby.Null(rng.Intn(2) == 0)).Aggregate(ag)
			})
		case 6:
			var e qframe.Expression
			name := []string{"+", "-", "abs", "str", "nosuch", "", "&", "len", "upper", "int"}[rng.Intn(10)]
			nargs := rng.Intn(4)
			eargs := make([]interface{}, nargs)
			txt := make([]string, nargs)
			for j := range eargs {
				if rng.Intn(4) == 0 {
					eargs[j] = qframe.Expr("abs", pick(rng, args))
					txt[j] = "Expr(abs, …)"
				} else {
					eargs[j] = pick(rng, args)
					txt[j] = describeVal(eargs[j])
				}
			}
			desc := fmt.Sprintf("Eval(%q, Expr(%q, %s))", "res", name, strings.Join(txt, ", "))
			if (name == "/" || strings.Contains(desc, "\"/\"")) && false {
				continue
			}
			dst := dstName()
			judge(desc, "Eval", false, func() qframe.QFrame {
				if rng.Intn(5) == 0 {
					e = qframe.Val(pick(rng, args))
				} else {
					e = qframe.Expr(name, eargs...)
				}
				return qf.Eval(dst, e)
			})
		case 7:
			data := map[string]interface{}{}
			for j := 1 + rng.Intn(3); j > 0; j-- {
				data[[]string{"a", "b", "c", "", "$d"}[rng.Intn(5)]] = pick(rng, args)
			}
			nf, _ := judge(fmt.Sprintf("New(%d columns from the argument pool)", len(data)), "New", false, func() qframe.QFrame { return qframe.New(data) })
			if nf.Err == nil {
				// whatever New accepted must be usable: observers and a few operations must not panic on it
				judge(fmt.Sprintf("use of the frame New(%d columns from the argument pool) returned without Err", len(data)), "New-then-use", false, func() qframe.QFrame {
					_ = nf.String()
					_ = nf.ToCSV(&bytes.Buffer{})
					_ = nf.ToJSON(&bytes.Buffer{})
					_, _ = nf.Equals(nf)
					names := nf.ColumnNames()
					if len(names) > 0 {
						_ = nf.Sort(qframe.Order{Column: names[0]})
						_ = nf.Distinct()
					}
					return nf.Slice(0, nf.Len())
				})
			}
		case 8:
			a, b := rng.Intn(rows+4)-2, rng.Intn(rows+4)-2
			judge(fmt.Sprintf("Slice(%d,%d)", a, b), "Slice", a < 0 || a > b || b > qf.Len(), func() qframe.QFrame { return qf.Slice(a, b) })
		case 9:
			cols := []string{colOrBad(), colOrBad()}
			switch rng.Intn(4) {
			case 0:
				judge(fmt.Sprintf("Select(%q)", cols), "Select", false, func() qframe.QFrame { return qf.Select(cols...) })
			case 1:
				judge(fmt.Sprintf("Sort(%q)", cols), "Sort", false, func() qframe.QFrame {
					return qf.Sort(qframe.Order{Column: cols[0], Reverse: true}, qframe.Order{Column: cols[1], NullLast: true})
				})
			case 2:
				judge(fmt.Sprintf("Distinct(%q)", cols), "Distinct", false, func() qframe.QFrame { return qf.Distinct(groupby.Columns(cols...)) })
			default:
				d := dstName()
				judge(fmt.Sprintf("Copy(%q,%q)", d, cols[0]), "Copy", false, func() qframe.QFrame { return qf.Copy(d, cols[0]) })
			}
		case 10:
			fn := pick(rng, aggs)
			ws := rng.Intn(5) - 1
			pos := []string{"center", "start", "end", "middle", ""}[rng.Intn(5)]
			src := colOrBad()
			judge(fmt.Sprintf("Rolling(%s, dst, %q, WindowSize(%d), Position(%q))", describeVal(fn), src, ws, pos), "Rolling", false, func() qframe.QFrame {
				return qf.Rolling(fn, dstName(), src, rolling.WindowSize(ws), rolling.Position(pos), rolling.PadValue(pick(rng, args)))
			})
		default:
			nm := dstName()
			judge(fmt.Sprintf("WithRowNums(%q)", nm), "WithRowNums", false, func() qframe.QFrame { return qf.WithRowNums(nm) })
		}
		if c.Failed() {
			return
		}
	}
	// view accessors report wrong types and unknown columns through their error return
	for _, nm := range append([]string{"no-such-col"}, names...) {
		c.Eval(1)
		pv, _ := fw.Guard(func() {
			_, _ = qf.IntView(nm)
			_, _ = qf.FloatView(nm)
			_, _ = qf.BoolView(nm)
			_, _ = qf.StringView(nm)
			_, _ = qf.EnumView(nm)
		})
		if pv != nil {
			c.Fail("panic:View", "a typed view accessor panicked for column %q: %v", nm, pv)
			return
		}
	}

	// frames without any column are frames too: no operation may panic on them
	if c.No%10 == 0 {
		for ei, ef := range []qframe.QFrame{{}, qframe.New(map[string]interface{}{}), qf.Select()} {
			ops := []struct {
				name string
				f    func() qframe.QFrame
			}{
				{"Apply(const)", func() qframe.QFrame { return ef.Apply(qframe.Instruction{Fn: 1, DstCol: "x"}) }},
				{"Apply(func())", func() qframe.QFrame { return ef.Apply(qframe.Instruction{Fn: func() int { return 1 }, DstCol: "x"}) }},
				{"Apply(func(int) int) on missing column", func() qframe.QFrame {
					return ef.Apply(qframe.Instruction{Fn: func(x int) int { return x }, DstCol: "x", SrcCol1: "y"})
				}},
				{"WithRowNums", func() qframe.QFrame { return ef.WithRowNums("rn") }},
				{"Eval(Val(1))", func() qframe.QFrame { return ef.Eval("x", qframe.Val(1)) }},
				{"Filter(Null())", func() qframe.QFrame { return ef.Filter(qframe.Null()) }},
				{"Filter on missing column", func() qframe.QFrame { return ef.Filter(qframe.Filter{Column: "y", Comparator: "=", Arg: 1}) }},
				{"Sort()", func() qframe.QFrame { return ef.Sort() }},
				{"Slice(0,0)", func() qframe.QFrame { return ef.Slice(0, 0) }},
				{"Select()", func() qframe.QFrame { return ef.Select() }},
				{"Drop(x)", func() qframe.QFrame { return ef.Drop("x") }},
				{"Copy(x,y)", func() qframe.QFrame { return ef.Copy("x", "y") }},
				{"Distinct()", func() qframe.QFrame { return ef.Distinct() }},
				{"GroupBy().Aggregate()", func() qframe.QFrame { return ef.GroupBy().Aggregate() }},
				{"writers and String", func() qframe.QFrame {
					_ = ef.ToCSV(&bytes.Buffer{})
					_ = ef.ToJSON(&bytes.Buffer{})
					_ = ef.String()
					_ = ef.ByteSize()
					_, _ = ef.Equals(ef)
					return ef
				}},
			}
			for _, o := range ops {
				judge(fmt.Sprintf("%s on a frame without columns (variant %d)", o.name, ei), "EmptyFrame", false, o.f)
				if c.Failed() {
					return
				}
			}
		}
	}

	// ------------------------------------------------------------ (b) constructed misuse
	one := func(k model.Kind) string {
		for _, col := range root.Shadow.Cols {
			if col.Kind == k && col.Name != model.IDCol {
				return col.Name
			}
		}
		return ""
	}
	iC, fC, bC, sC, eC := one(model.KInt), one(model.KFloat), one(model.KBool), one(model.KString), one(model.KEnum)
	if iC == "" || fC == "" || bC == "" || sC == "" {
		return
	}
	misuse := []struct {
		desc, kind string
		f          func() qframe.QFrame
	}{
		{"Filter on unknown column", "Filter", func() qframe.QFrame { return qf.Filter(qframe.Filter{Column: "nope", Comparator: "=", Arg: 1}) }},
		{"Filter with unknown argument column", "Filter", func() qframe.QFrame {
			return qf.Filter(qframe.Filter{Column: iC, Comparator: "=", Arg: types.ColumnName("nope")})
		}},
		{"Filter with unsupported comparator name", "Filter", func() qframe.QFrame { return qf.Filter(qframe.Filter{Column: iC, Comparator: "~=", Arg: 1}) }},
		{"Filter int column with string argument", "Filter", func() qframe.QFrame { return qf.Filter(qframe.Filter{Column: iC, Comparator: "=", Arg: "x"}) }},
		{"Filter int column in a list of strings", "Filter", func() qframe.QFrame {
			return qf.Filter(qframe.Filter{Column: iC, Comparator: "in", Arg: []interface{}{"a", "b"}})
		}},
		{"Filter int column in a []string", "Filter", func() qframe.QFrame {
			return qf.Filter(qframe.Filter{Column: iC, Comparator: "in", Arg: []string{"a"}})
		}},
		{"Filter string column in a list of ints", "Filter", func() qframe.QFrame {
			return qf.Filter(qframe.Filter{Column: sC, Comparator: "in", Arg: []interface{}{1, 2}})
		}},
		{"Filter string column in a mixed list", "Filter", func() qframe.QFrame {
			return qf.Filter(qframe.Filter{Column: sC, Comparator: "in", Arg: []interface{}{"a", 2}})
		}},
		{"Filter bool column with int argument", "Filter", func() qframe.QFrame { return qf.Filter(qframe.Filter{Column: bC, Comparator: "=", Arg: 1}) }},
		{"Filter string column with function of int", "Filter", func() qframe.QFrame {
			return qf.Filter(qframe.Filter{Column: sC, Comparator: func(x int) bool { cb.hit(); return true }})
		}},
		{"Filter comparator of unsupported type", "Filter", func() qframe.QFrame { return qf.Filter(qframe.Filter{Column: iC, Comparator: 42, Arg: 1}) }},
		{"Filter int column against string column", "Filter", func() qframe.QFrame {
			return qf.Filter(qframe.Filter{Column: iC, Comparator: "=", Arg: types.ColumnName(sC)})
		}},
		{"Filter string column against enum column", "Filter", func() qframe.QFrame {
			return qf.Filter(qframe.Filter{Column: sC, Comparator: "=", Arg: types.ColumnName(eC)})
		}},
		{"Filter like with invalid regular expression", "Filter", func() qframe.QFrame { return qf.Filter(qframe.Filter{Column: sC, Comparator: "like", Arg: "a("}) }},
		{"Filter with empty And", "Filter", func() qframe.QFrame { return qf.Filter(qframe.And()) }},
		{"Filter with empty Or", "Filter", func() qframe.QFrame { return qf.Filter(qframe.Or()) }},
		{"Filter with Not(empty Or)", "Filter", func() qframe.QFrame { return qf.Filter(qframe.Not(qframe.Or())) }},
		{"Filter with invalid clause nested in Or after a valid one", "Filter", func() qframe.QFrame {
			return qf.Filter(qframe.Or(qframe.Filter{Column: iC, Comparator: "isnotnull"}, qframe.And(qframe.Filter{Column: "nope", Comparator: "=", Arg: 1})))
		}},
		{"Filter with invalid clause nested in And after a valid one", "Filter", func() qframe.QFrame {
			return qf.Filter(qframe.And(qframe.Filter{Column: iC, Comparator: "isnotnull"}, qframe.Not(qframe.And(qframe.Filter{Column: iC, Comparator: "~="}))))
		}},
		{"Sort on unknown column", "Sort", func() qframe.QFrame { return qf.Sort(qframe.Order{Column: iC}, qframe.Order{Column: "nope"}) }},
		{"Select unknown column", "Select", func() qframe.QFrame { return qf.Select(iC, "nope") }},
		{"Copy from unknown column", "Copy", func() qframe.QFrame { return qf.Copy("x", "nope") }},
		{"Copy of an unknown column onto itself", "Copy", func() qframe.QFrame { return qf.Copy("nope", "nope") }},
		{"Apply copy of an unknown column onto itself", "Apply", func() qframe.QFrame {
			return qf.Apply(qframe.Instruction{Fn: types.ColumnName("nope"), DstCol: "nope"})
		}},
		{"Eval of an unknown column onto itself", "Eval", func() qframe.QFrame { return qf.Eval("nope", qframe.Val(types.ColumnName("nope"))) }},
		{"Copy to illegal name", "Copy", func() qframe.QFrame { return qf.Copy("$x", iC) }},
		{"Copy to a quoted name with the quote character inside", "Copy", func() qframe.QFrame { return qf.Copy("'it's'", iC) }},
		{"WithRowNums with a quoted name with the quote character inside", "WithRowNums", func() qframe.QFrame { return qf.WithRowNums("\"a\"b\"") }},
		{"Apply to a destination made of three quotes", "Apply", func() qframe.QFrame { return qf.Apply(qframe.Instruction{Fn: 1, DstCol: "'" + "''"}) }},
		{"Eval to a quoted destination with quotes inside", "Eval", func() qframe.QFrame { return qf.Eval("\"say \"hi\"\"", qframe.Val(1)) }},
		{"Distinct on unknown column", "Distinct", func() qframe.QFrame { return qf.Distinct(groupby.Columns("nope")) }},
		{"GroupBy on unknown column", "Aggregate", func() qframe.QFrame {
			return qf.GroupBy(groupby.Columns("nope")).Aggregate(qframe.Aggregation{Fn: "sum", Column: iC})
		}},
		{"Aggregate unknown column", "Aggregate", func() qframe.QFrame {
			return qf.GroupBy(groupby.Columns(bC)).Aggregate(qframe.Aggregation{Fn: "sum", Column: "nope"})
		}},
		{"Aggregate with unknown function name", "Aggregate", func() qframe.QFrame {
			return qf.GroupBy(groupby.Columns(bC)).Aggregate(qframe.Aggregation{Fn: "nosuch", Column: iC})
		}},
		{"Aggregate with function of the wrong slice type", "Aggregate", func() qframe.QFrame {
			return qf.GroupBy(groupby.Columns(bC)).Aggregate(qframe.Aggregation{Fn: func(v []float64) float64 { cb.hit(); return 0 }, Column: iC})
		}},
		{"Apply with unknown source column", "Apply", func() qframe.QFrame {
			return qf.Apply(qframe.Instruction{Fn: func(x int) int { cb.hit(); return x }, DstCol: "x", SrcCol1: "nope"})
		}},
		{"Apply function of the wrong argument type", "Apply", func() qframe.QFrame {
			return qf.Apply(qframe.Instruction{Fn: func(x float64) float64 { cb.hit(); return x }, DstCol: "x", SrcCol1: iC})
		}},
		{"Apply unsupported constant type", "Apply", func() qframe.QFrame { return qf.Apply(qframe.Instruction{Fn: int64(1), DstCol: "x"}) }},
		{"Apply to illegal destination name", "Apply", func() qframe.QFrame { return qf.Apply(qframe.Instruction{Fn: 1, DstCol: ""}) }},
		{"Apply two-argument function to columns of different types", "Apply", func() qframe.QFrame {
			return qf.Apply(qframe.Instruction{Fn: func(x, y int) int { cb.hit(); return x }, DstCol: "x", SrcCol1: iC, SrcCol2: fC})
		}},
		{"Apply unknown built-in", "Apply", func() qframe.QFrame {
			return qf.Apply(qframe.Instruction{Fn: "NoSuchBuiltin", DstCol: "x", SrcCol1: sC})
		}},
		{"Apply copy of unknown column", "Apply", func() qframe.QFrame { return qf.Apply(qframe.Instruction{Fn: types.ColumnName("nope"), DstCol: "x"}) }},
		{"FilteredApply with invalid clause", "FilteredApply", func() qframe.QFrame {
			return qf.FilteredApply(qframe.Filter{Column: "nope", Comparator: "=", Arg: 1}, qframe.Instruction{Fn: func() int { cb.hit(); return 1 }, DstCol: "x"})
		}},
		{"WithRowNums illegal name", "WithRowNums", func() qframe.QFrame { return qf.WithRowNums("'q'") }},
		{"Slice negative start", "Slice", func() qframe.QFrame { return qf.Slice(-1, 0) }},
		{"Slice end beyond length", "Slice", func() qframe.QFrame { return qf.Slice(0, qf.Len()+1) }},
		{"Slice start after end", "Slice", func() qframe.QFrame { return qf.Slice(1, 0) }},
		{"Eval unknown function", "Eval", func() qframe.QFrame { return qf.Eval("x", qframe.Expr("nosuch", types.ColumnName(iC))) }},
		{"Eval unknown column", "Eval", func() qframe.QFrame { return qf.Eval("x", qframe.Expr("abs", types.ColumnName("nope"))) }},
		{"Eval malformed expression", "Eval", func() qframe.QFrame { return qf.Eval("x", qframe.Val([]interface{}{"+", 1, 2, 3})) }},
		{"Eval expression without arguments", "Eval", func() qframe.QFrame { return qf.Eval("x", qframe.Expr("+")) }},
		{"Eval mismatched operand types", "Eval", func() qframe.QFrame {
			return qf.Eval("x", qframe.Expr("+", types.ColumnName(iC), types.ColumnName(fC)))
		}},
		{"Eval to illegal destination", "Eval", func() qframe.QFrame { return qf.Eval("$x", qframe.Expr("abs", types.ColumnName(iC))) }},
		{"Rolling on unknown column", "Rolling", func() qframe.QFrame { return qf.Rolling("sum", "x", "nope") }},
	}
	// invalid leaf filters must also be reported when they are negated or nested (other code paths decode them)
	badLeaves := []struct {
		desc string
		f    qframe.Filter
	}{
		{"unsupported comparator name", qframe.Filter{Column: iC, Comparator: ">>>", Arg: 1}},
		{"ordering comparator on int column with string argument", qframe.Filter{Column: iC, Comparator: "<", Arg: "x"}},
		{"ordering comparator on string column with int argument", qframe.Filter{Column: sC, Comparator: ">=", Arg: 1}},
		{"ordering comparator on float column with bool argument", qframe.Filter{Column: fC, Comparator: "<", Arg: true}},
		{"comparator function of the wrong type", qframe.Filter{Column: sC, Comparator: func(x int) bool { cb.hit(); return true }}},
		{"like with invalid regular expression", qframe.Filter{Column: sC, Comparator: "like", Arg: "a("}},
		{"comparator of unsupported type", qframe.Filter{Column: fC, Comparator: 3.5, Arg: 1.0}},
		{"unknown column", qframe.Filter{Column: "nope", Comparator: "<", Arg: 1}},
		{"bool column with unsupported comparator", qframe.Filter{Column: bC, Comparator: "<", Arg: true}},
	}
	for _, bl := range badLeaves {
		leaf := bl.f
		inv := leaf
		inv.Inverse = true
		valid := qframe.Filter{Column: iC, Comparator: "isnotnull"}
		forms := []struct {
			name string
			cl   qframe.FilterClause
		}{
			{"plain", leaf}, {"Inverse:true", inv}, {"Not(leaf)", qframe.Not(leaf)}, {"Not(Inverse leaf)", qframe.Not(inv)},
			{"Or(valid, Inverse leaf)", qframe.Or(valid, inv)}, {"And(valid, Not(leaf))", qframe.And(valid, qframe.Not(leaf))}, {"Not(Or(And(Inverse leaf)))", qframe.Not(qframe.Or(qframe.And(inv)))},
		}
		for _, fm := range forms {
			cl := fm.cl
			judge("Filter with "+bl.desc+", form "+fm.name, "Filter", true, func() qframe.QFrame { return qf.Filter(cl) })
			if c.Failed() {
				return
			}
		}
	}
	before := cb.n
	for _, m := range misuse {
		if eC == "" && strings.Contains(m.desc, "enum") {
			continue
		}
		judge(m.desc, m.kind, true, m.f)
		if c.Failed() {
			return
		}
	}
	_ = before

	// ------------------------------------------------------------ (b') the typed product
	// "a function taking an argument matching the column type": every user function whose parameter
	// type belongs to another column type, and every comparator that is neither a name nor a function,
	// is invalid on every column type, in every position a leaf can take.
	type kcol struct{ name, elem string }
	var kcols []kcol
	for _, kc := range []kcol{{iC, "i"}, {fC, "f"}, {bC, "b"}, {sC, "s"}, {eC, "s"}} {
		if kc.name != "" {
			kcols = append(kcols, kc)
		}
	}
	type tfn struct {
		elem string // "i","f","b","s"; "-" = valid for no column type
		desc string
		fn   interface{}
	}
	filt1 := []tfn{
		{"i", "func(int) bool", func(int) bool { cb.hit(); return true }}, {"f", "func(float64) bool", func(float64) bool { cb.hit(); return true }},
		{"b", "func(bool) bool", func(bool) bool { cb.hit(); return true }}, {"s", "func(*string) bool", func(*string) bool { cb.hit(); return true }},
		{"-", "func() bool", func() bool { cb.hit(); return true }}, {"-", "func(int64) bool", func(int64) bool { cb.hit(); return true }},
		{"-", "func(int) (bool, error)", func(int) (bool, error) { cb.hit(); return true, nil }}, {"-", "func(float32) bool", func(float32) bool { cb.hit(); return true }},
		{"-", "42", 42}, {"-", "3.5", 3.5}, {"-", "nil", nil}, {"-", "[]int{1}", []int{1}}, {"-", "struct{}{}", struct{}{}}, {"-", "true", true},
	}
	for _, kc := range kcols {
		for _, tf := range filt1 {
			if tf.elem == kc.elem {
				continue
			}
			leaf := qframe.Filter{Column: kc.name, Comparator: tf.fn}
			inv := leaf
			inv.Inverse = true
			for fi, cl := range []qframe.FilterClause{leaf, inv, qframe.Not(leaf), qframe.Or(qframe.Filter{Column: iC, Comparator: "isnotnull"}, leaf), qframe.And(qframe.Not(inv))} {
				cl := cl
				judge(fmt.Sprintf("Filter %s column with comparator %s (form %d)", kc.elem, tf.desc, fi), "Filter", true, func() qframe.QFrame { return qf.Filter(cl) })
				if c.Failed() {
					return
				}
			}
		}
	}
	filt2 := []tfn{
		{"i", "func(int, int) bool", func(int, int) bool { cb.hit(); return true }}, {"f", "func(float64, float64) bool", func(float64, float64) bool { cb.hit(); return true }},
		{"b", "func(bool, bool) bool", func(bool, bool) bool { cb.hit(); return true }}, {"s", "func(*string, *string) bool", func(*string, *string) bool { cb.hit(); return true }},
	}
	mixIF := func(a, b string) bool { return a != b && (a == "i" || a == "f") && (b == "i" || b == "f") }
	for _, kx := range kcols {
		for _, ky := range kcols {
			if mixIF(kx.elem, ky.elem) {
				continue // int and float columns are promoted for comparison with each other
			}
			for _, tf := range filt2 {
				if tf.elem == kx.elem && tf.elem == ky.elem {
					continue // valid, or string against enum (not demanded)
				}
				for _, inverse := range []bool{false, true} {
					fl := qframe.Filter{Column: kx.name, Comparator: tf.fn, Arg: types.ColumnName(ky.name), Inverse: inverse}
					judge(fmt.Sprintf("Filter %s column against %s column with %s, Inverse=%v", kx.elem, ky.elem, tf.desc, inverse), "Filter", true, func() qframe.QFrame { return qf.Filter(fl) })
					if c.Failed() {
						return
					}
				}
			}
		}
	}
	// enum columns over different value lists are different types
	if c1, c3 := root.Shadow.Col("e1"), root.Shadow.Col("e3"); e3variant != "" && c1 != nil && c3 != nil && c1.Kind == model.KEnum && c3.Kind == model.KEnum {
		for _, cmp := range []string{"=", "!=", "<", "<=", ">", ">="} {
			for _, pair := range [][2]string{{"e1", "e3"}, {"e3", "e1"}} {
				for _, inverse := range []bool{false, true} {
					fl := qframe.Filter{Column: pair[0], Comparator: cmp, Arg: types.ColumnName(pair[1]), Inverse: inverse}
					c.Count("enum_type_mismatch:"+e3variant, 1)
					judge(fmt.Sprintf("Filter enum column %s %s enum column %s over a different (%s) value list, Inverse=%v", pair[0], cmp, pair[1], e3variant, inverse), "Filter", true, func() qframe.QFrame { return qf.Filter(fl) })
					if c.Failed() {
						return
					}
				}
			}
		}
	}
	// an enum column and its upper-cased derivative (which shares the cell storage but has another value list)
	if c1 := root.Shadow.Col("e1"); c1 != nil && c1.Kind == model.KEnum {
		vals := c1.EnumVals
		if !c1.Strict() {
			vals = nil
			for _, p := range c1.S {
				if p != nil {
					vals = append(vals, *p)
				}
			}
		}
		changes := false
		for _, v := range vals {
			changes = changes || strings.ToUpper(v) != v
		}
		var up qframe.QFrame
		if changes && c.GuardFail("Apply", "Apply ToUpper on enum", func() {
			up = qf.Apply(qframe.Instruction{Fn: "ToUpper", DstCol: "e1-upper", SrcCol1: "e1"})
		}) && up.Err == nil {
			for _, cmp := range []string{"=", "!=", "<", ">="} {
				for _, pair := range [][2]string{{"e1", "e1-upper"}, {"e1-upper", "e1"}} {
					fl := qframe.Filter{Column: pair[0], Comparator: cmp, Arg: types.ColumnName(pair[1]), Inverse: rng.Intn(2) == 0}
					c.Count("enum_type_mismatch:upper-cased-derivative", 1)
					judge(fmt.Sprintf("Filter enum column %s %s enum column %s (one is the ToUpper derivative of the other, the value lists differ)", pair[0], cmp, pair[1]), "Filter", true, func() qframe.QFrame { return up.Filter(fl) })
					if c.Failed() {
						return
					}
				}
			}
		}
	}
	sp := func(s string) *string { return &s }
	apply1 := []tfn{
		{"i", "func(int) int", func(int) int { cb.hit(); return 1 }}, {"i", "func(int) float64", func(int) float64 { cb.hit(); return 1 }}, {"i", "func(int) bool", func(int) bool { cb.hit(); return true }}, {"i", "func(int) *string", func(int) *string { cb.hit(); return sp("x") }},
		{"f", "func(float64) int", func(float64) int { cb.hit(); return 1 }}, {"f", "func(float64) float64", func(float64) float64 { cb.hit(); return 1 }}, {"f", "func(float64) bool", func(float64) bool { cb.hit(); return true }}, {"f", "func(float64) *string", func(float64) *string { cb.hit(); return sp("x") }},
		{"b", "func(bool) int", func(bool) int { cb.hit(); return 1 }}, {"b", "func(bool) float64", func(bool) float64 { cb.hit(); return 1 }}, {"b", "func(bool) bool", func(bool) bool { cb.hit(); return true }}, {"b", "func(bool) *string", func(bool) *string { cb.hit(); return sp("x") }},
		{"s", "func(*string) int", func(*string) int { cb.hit(); return 1 }}, {"s", "func(*string) float64", func(*string) float64 { cb.hit(); return 1 }}, {"s", "func(*string) bool", func(*string) bool { cb.hit(); return true }}, {"s", "func(*string) *string", func(*string) *string { cb.hit(); return sp("x") }},
		{"-", "func(int64) int64", func(int64) int64 { cb.hit(); return 1 }}, {"-", "func(int) (int, error)", func(int) (int, error) { cb.hit(); return 1, nil }}, {"-", "func(float32) float32", func(float32) float32 { cb.hit(); return 1 }},
		{"-", "func(uint) uint", func(uint) uint { cb.hit(); return 1 }}, {"-", "func([]int) int", func([]int) int { cb.hit(); return 1 }},
	}
	for _, kc := range kcols {
		for _, tf := range apply1 {
			if tf.elem == kc.elem {
				continue
			}
			fn := tf.fn
			src := kc.name
			judge(fmt.Sprintf("Apply %s to %s column", tf.desc, kc.elem), "Apply", true, func() qframe.QFrame {
				return qf.Apply(qframe.Instruction{Fn: fn, DstCol: "x", SrcCol1: src})
			})
			if c.Failed() {
				return
			}
		}
	}
	apply2 := []tfn{
		{"i", "func(int, int) int", func(int, int) int { cb.hit(); return 1 }}, {"f", "func(float64, float64) float64", func(float64, float64) float64 { cb.hit(); return 1 }},
		{"b", "func(bool, bool) bool", func(bool, bool) bool { cb.hit(); return true }}, {"s", "func(*string, *string) *string", func(*string, *string) *string { cb.hit(); return sp("x") }},
		{"-", "func(int, float64) int", func(int, float64) int { cb.hit(); return 1 }}, {"-", "func(int, int, int) int", func(int, int, int) int { cb.hit(); return 1 }},
	}
	for _, kx := range kcols {
		for _, ky := range kcols {
			for _, tf := range apply2 {
				if tf.elem == kx.elem && tf.elem == ky.elem {
					continue
				}
				fn := tf.fn
				s1, s2 := kx.name, ky.name
				judge(fmt.Sprintf("Apply %s to %s and %s columns", tf.desc, kx.elem, ky.elem), "Apply", true, func() qframe.QFrame {
					return qf.Apply(qframe.Instruction{Fn: fn, DstCol: "x", SrcCol1: s1, SrcCol2: s2})
				})
				if c.Failed() {
					return
				}
			}
		}
	}
	aggT := []tfn{
		{"i", "func([]int) int", func([]int) int { cb.hit(); return 1 }}, {"f", "func([]float64) float64", func([]float64) float64 { cb.hit(); return 1 }},
		{"b", "func([]bool) bool", func([]bool) bool { cb.hit(); return true }}, {"s", "func([]*string) *string", func([]*string) *string { cb.hit(); return sp("x") }},
		{"-", "func(int) int", func(int) int { cb.hit(); return 1 }}, {"-", "func([]int64) int64", func([]int64) int64 { cb.hit(); return 1 }}, {"-", "func() int", func() int { cb.hit(); return 1 }},
		{"-", "func([]int) (int, error)", func([]int) (int, error) { cb.hit(); return 1, nil }}, {"-", "17", 17},
	}
	for _, kc := range kcols {
		for _, tf := range aggT {
			if tf.elem == kc.elem {
				continue
			}
			fn := tf.fn
			col := kc.name
			for _, grouped := range []bool{false, true} {
				grouped := grouped
				judge(fmt.Sprintf("Aggregate %s column with %s (grouped=%v)", kc.elem, tf.desc, grouped), "Aggregate", true, func() qframe.QFrame {
					g := qf.GroupBy(groupby.Columns())
					if grouped && bC != col {
						g = qf.GroupBy(groupby.Columns(bC))
					}
					return g.Aggregate(qframe.Aggregation{Fn: fn, Column: col, As: "agg"})
				})
				if c.Failed() {
					return
				}
			}
		}
	}

	// FilteredApply: a valid clause (matching all, some or no rows) with an instruction that is invalid
	{
		clauses := []qframe.FilterClause{qframe.Filter{Column: iC, Comparator: "isnotnull"}, qframe.Filter{Column: iC, Comparator: ">", Arg: 0}, qframe.Filter{Column: iC, Comparator: "isnull"}, qframe.Null()}
		instrs := []struct {
			name string
			in   qframe.Instruction
		}{
			{"unknown source column", qframe.Instruction{Fn: func(x int) int { cb.hit(); return x }, DstCol: "x", SrcCol1: "no-such-column"}},
			{"function of the wrong type", qframe.Instruction{Fn: func(x float64) float64 { cb.hit(); return x }, DstCol: "x", SrcCol1: iC}},
			{"unsupported constant type", qframe.Instruction{Fn: int64(1), DstCol: "x"}},
			{"illegal destination name", qframe.Instruction{Fn: 1, DstCol: "$x"}},
			{"copy of an unknown column", qframe.Instruction{Fn: types.ColumnName("no-such-column"), DstCol: "x"}},
			{"unknown built-in", qframe.Instruction{Fn: "NoSuchBuiltin", DstCol: "x", SrcCol1: sC}},
		}
		for ci, cl := range clauses {
			for _, in := range instrs {
				cl, in := cl, in
				judge(fmt.Sprintf("FilteredApply(valid clause #%d, %s)", ci, in.name), "FilteredApply", true, func() qframe.QFrame { return qf.FilteredApply(cl, in.in) })
				if c.Failed() {
					return
				}
				judge(fmt.Sprintf("FilteredApply(valid clause #%d, valid instruction, %s)", ci, in.name), "FilteredApply", true, func() qframe.QFrame {
					return qf.FilteredApply(cl, qframe.Instruction{Fn: 2, DstCol: "ok"}, in.in)
				})
				if c.Failed() {
					return
				}
			}
		}
	}
	// empty And/Or nested in clauses of the same and of the other kind
	{
		valid := qframe.Filter{Column: iC, Comparator: "isnotnull"}
		nested := []struct {
			name string
			cl   func() qframe.FilterClause
		}{
			{"And(valid, And())", func() qframe.FilterClause { return qframe.And(valid, qframe.And()) }},
			{"Or(valid, Or())", func() qframe.FilterClause { return qframe.Or(valid, qframe.Or()) }},
			{"Or(And(valid), Or())", func() qframe.FilterClause { return qframe.Or(qframe.And(valid), qframe.Or()) }},
			{"Not(And(valid, And()))", func() qframe.FilterClause { return qframe.Not(qframe.And(valid, qframe.And())) }},
			{"And(And())", func() qframe.FilterClause { return qframe.And(qframe.And()) }},
			{"Or(Or())", func() qframe.FilterClause { return qframe.Or(qframe.Or()) }},
			{"And(Or())", func() qframe.FilterClause { return qframe.And(qframe.Or()) }},
			{"Or(And())", func() qframe.FilterClause { return qframe.Or(qframe.And()) }},
			{"And(valid, Or(valid, And()))", func() qframe.FilterClause { return qframe.And(valid, qframe.Or(valid, qframe.And())) }},
			{"Or(valid, And(valid, Or(Or())))", func() qframe.FilterClause { return qframe.Or(valid, qframe.And(valid, qframe.Or(qframe.Or()))) }},
		}
		for _, nc := range nested {
			nc := nc
			judge("Filter with "+nc.name, "Filter", true, func() qframe.QFrame { return qf.Filter(nc.cl()) })
			if c.Failed() {
				return
			}
		}
	}
	// an aggregation the column rejects, followed (or preceded) by valid ones
	{
		invalidAggs := []qframe.Aggregation{{Fn: "nosuch", Column: iC}, {Fn: "sum", Column: sC}, {Fn: "majority", Column: iC}, {Fn: func(v []float64) float64 { cb.hit(); return 0 }, Column: iC}, {Fn: 17, Column: fC}}
		validAggs := []qframe.Aggregation{{Fn: "sum", Column: iC, As: "ok1"}, {Fn: "count", Column: fC, As: "ok2"}, {Fn: "max", Column: fC, As: "ok3"}}
		for i, bad := range invalidAggs {
			bad := bad
			bad.As = "bad"
			for _, pos := range []int{0, 1, 2} {
				list := append([]qframe.Aggregation(nil), validAggs...)
				list = append(list[:pos], append([]qframe.Aggregation{bad}, list[pos:]...)...)
				judge(fmt.Sprintf("Aggregate with invalid aggregation #%d (%s on %s) at position %d of %d", i, describeVal(bad.Fn), bad.Column, pos, len(list)), "Aggregate", true, func() qframe.QFrame {
					return qf.GroupBy(groupby.Columns(bC)).Aggregate(list...)
				})
				if c.Failed() {
					return
				}
			}
		}
	}
	// every aggregation over a column that does not exist, and every grouping by one
	for _, fn := range []interface{}{"count", "sum", "min", "max", "avg", "majority", func(v []int) int { cb.hit(); return 0 }, func(v []*string) *string { cb.hit(); return nil }} {
		for _, as := range []string{"", "out"} {
			for _, grouped := range []bool{false, true} {
				fn, as, grouped := fn, as, grouped
				judge(fmt.Sprintf("Aggregate %s over an unknown column (As=%q, grouped=%v)", describeVal(fn), as, grouped), "Aggregate", true, func() qframe.QFrame {
					g := qf.GroupBy()
					if grouped {
						g = qf.GroupBy(groupby.Columns(bC))
					}
					return g.Aggregate(qframe.Aggregation{Fn: fn, Column: "no-such-column", As: as})
				})
				if c.Failed() {
					return
				}
			}
		}
		fn := fn
		judge(fmt.Sprintf("GroupBy(unknown column).Aggregate(%s)", describeVal(fn)), "Aggregate", true, func() qframe.QFrame {
			return qf.GroupBy(groupby.Columns(bC, "no-such-column")).Aggregate(qframe.Aggregation{Fn: fn, Column: iC})
		})
		if c.Failed() {
			return
		}
	}

	// ------------------------------------------------------------ (c) stickiness
	type cont struct {
		name string
		f    func(ef qframe.QFrame, k *c10cb) qframe.QFrame
	}
	ctx := eval.NewDefaultCtx()
	conts := []cont{
		{"Filter(predicate)", func(ef qframe.QFrame, k *c10cb) qframe.QFrame {
			return ef.Filter(qframe.Filter{Column: iC, Comparator: func(x int) bool { k.hit(); return true }})
		}},
		{"Filter(And(Or(predicate)))", func(ef qframe.QFrame, k *c10cb) qframe.QFrame {
			return ef.Filter(qframe.And(qframe.Or(qframe.Filter{Column: iC, Comparator: func(x int) bool { k.hit(); return true }}, qframe.Not(qframe.Filter{Column: fC, Comparator: func(x float64) bool { k.hit(); return true }}))))
		}},
		{"Sort", func(ef qframe.QFrame, k *c10cb) qframe.QFrame { return ef.Sort(qframe.Order{Column: iC}) }},
		{"Slice", func(ef qframe.QFrame, k *c10cb) qframe.QFrame { return ef.Slice(0, 0) }},
		{"Select", func(ef qframe.QFrame, k *c10cb) qframe.QFrame { return ef.Select(iC) }},
		{"Drop", func(ef qframe.QFrame, k *c10cb) qframe.QFrame { return ef.Drop(iC) }},
		{"Copy", func(ef qframe.QFrame, k *c10cb) qframe.QFrame { return ef.Copy("x", iC) }},
		{"Apply(three instructions)", func(ef qframe.QFrame, k *c10cb) qframe.QFrame {
			return ef.Apply(qframe.Instruction{Fn: func() int { k.hit(); return 1 }, DstCol: "x"},
				qframe.Instruction{Fn: func(x int) int { k.hit(); return x }, DstCol: "y", SrcCol1: iC},
				qframe.Instruction{Fn: func(x, y float64) float64 { k.hit(); return x }, DstCol: "z", SrcCol1: fC, SrcCol2: fC})
		}},
		{"FilteredApply", func(ef qframe.QFrame, k *c10cb) qframe.QFrame {
			return ef.FilteredApply(qframe.Filter{Column: iC, Comparator: func(x int) bool { k.hit(); return true }}, qframe.Instruction{Fn: func() int { k.hit(); return 1 }, DstCol: "x"})
		}},
		{"Eval(user function)", func(ef qframe.QFrame, k *c10cb) qframe.QFrame {
			_ = ctx.SetFunc("cbfn", func(x int) int { k.hit(); return x })
			return ef.Eval("x", qframe.Expr("+", qframe.Expr("cbfn", types.ColumnName(iC)), 1), eval.EvalContext(ctx))
		}},
		{"WithRowNums", func(ef qframe.QFrame, k *c10cb) qframe.QFrame { return ef.WithRowNums("rn") }},
		{"Distinct", func(ef qframe.QFrame, k *c10cb) qframe.QFrame { return ef.Distinct(groupby.Columns(bC)) }},
		{"Rolling", func(ef qframe.QFrame, k *c10cb) qframe.QFrame {
			return ef.Rolling(func(v []int) int { k.hit(); return 0 }, "x", iC)
		}},
		{"GroupBy.Aggregate(user function)", func(ef qframe.QFrame, k *c10cb) qframe.QFrame {
			g := ef.GroupBy(groupby.Columns(bC))
			if g.Err == nil {
				return qframe.QFrame{}
			}
			if fr, e := g.QFrames(); e == nil || fr != nil {
				return qframe.QFrame{}
			}
			return g.Aggregate(qframe.Aggregation{Fn: func(v []int) int { k.hit(); return 0 }, Column: iC})
		}},
	}
	checkSticky := func(origin string, ef qframe.QFrame) {
		orig := ef.Err.Error()
		for _, ct := range conts {
			k := &c10cb{}
			c.Eval(1)
			c.Count("continuations", 1)
			c.Nontrivial("sticky", origin, ct.name)
			var res qframe.QFrame
			pv, stack := fw.Guard(func() { res = ct.f(ef, k) })
			if pv != nil {
				c.Fail("panic:after-error:"+ct.name, "%s on a frame whose Err is set (from %s) panicked: %v\n%s", ct.name, origin, pv, clip(stack, 1200))
				return
			}
			if res.Err == nil {
				c.Fail("error-lost:"+ct.name, "%s on a frame whose Err is set (from %s: %s) returned Err == nil", ct.name, origin, orig)
				return
			}
			if !strings.Contains(res.Err.Error(), orig) {
				c.Fail("error-replaced:"+ct.name, "%s on an error frame reports %q instead of the original error %q", ct.name, res.Err.Error(), orig)
				return
			}
			if res.Len() != -1 {
				c.Fail("errlen:after-error", "%s on an error frame: Len() = %d", ct.name, res.Len())
				return
			}
			if k.n != 0 {
				c.Fail("callback-after-error:"+ct.name, "%s on an error frame (from %s) invoked a user callback %d times", ct.name, origin, k.n)
				return
			}
		}
		// writers
		c.Eval(1)
		var e1, e2, e3 error
		pv, _ := fw.Guard(func() {
			e1 = ef.ToCSV(&bytes.Buffer{})
			e2 = ef.ToJSON(&bytes.Buffer{})
			e3 = ef.ToSQL(tx, qsql.Table("t"))
			_ = ef.String()
			_ = ef.ByteSize()
		})
		if pv != nil {
			c.Fail("panic:after-error:writers", "a writer / String / ByteSize panicked on an error frame (from %s): %v", origin, pv)
			return
		}
		if e1 == nil || e2 == nil || e3 == nil {
			c.Fail("writer-ignores-error", "writers on an error frame (from %s): ToCSV err=%v ToJSON err=%v ToSQL err=%v", origin, e1, e2, e3)
		}
	}
	for i, ef := range errFrames {
		checkSticky(errDescs[i], ef)
		if c.Failed() {
			return
		}
	}
	// errors arising in the middle of one call: later parts must not run
	mid := []struct {
		name string
		f    func(k *c10cb) qframe.QFrame
	}{
		{"Apply(invalid, valid with callback)", func(k *c10cb) qframe.QFrame {
			return qf.Apply(qframe.Instruction{Fn: func(x float64) float64 { return x }, DstCol: "x", SrcCol1: iC},
				qframe.Instruction{Fn: func(x int) int { k.hit(); return x }, DstCol: "y", SrcCol1: iC},
				qframe.Instruction{Fn: func() int { k.hit(); return 1 }, DstCol: "z"})
		}},
		{"Apply(unknown source, failing again)", func(k *c10cb) qframe.QFrame {
			return qf.Apply(qframe.Instruction{Fn: func(x int) int { k.hit(); return x }, DstCol: "x", SrcCol1: "FIRST-ERROR-COLUMN"},
				qframe.Instruction{Fn: func(x int) int { k.hit(); return x }, DstCol: "y", SrcCol1: "second-error-column"})
		}},
		{"Filter(And(invalid, predicate))", func(k *c10cb) qframe.QFrame {
			return qf.Filter(qframe.And(qframe.Filter{Column: "FIRST-ERROR-COLUMN", Comparator: "=", Arg: 1}, qframe.Filter{Column: iC, Comparator: func(x int) bool { k.hit(); return true }}))
		}},
		{"FilteredApply(invalid clause, callback)", func(k *c10cb) qframe.QFrame {
			return qf.FilteredApply(qframe.Filter{Column: "FIRST-ERROR-COLUMN", Comparator: "=", Arg: 1}, qframe.Instruction{Fn: func() int { k.hit(); return 1 }, DstCol: "x"})
		}},
		{"Eval(invalid lhs, user function rhs)", func(k *c10cb) qframe.QFrame {
			_ = ctx.SetFunc("cbfn", func(x int) int { k.hit(); return x })
			return qf.Eval("x", qframe.Expr("+", qframe.Expr("abs", types.ColumnName("FIRST-ERROR-COLUMN")), qframe.Expr("cbfn", types.ColumnName(iC))), eval.EvalContext(ctx))
		}},
	}
	for _, m := range mid {
		k := &c10cb{}
		c.Eval(1)
		c.Nontrivial("mid-call", m.name)
		var res qframe.QFrame
		pv, stack := fw.Guard(func() { res = m.f(k) })
		if pv != nil {
			c.Fail("panic:mid-call", "%s panicked: %v\n%s", m.name, pv, clip(stack, 1200))
			return
		}
		if res.Err == nil {
			c.Fail("error-lost:mid-call", "%s returned Err == nil", m.name)
			return
		}
		if k.n != 0 {
			c.Fail("callback-after-error:mid-call", "%s: a user callback ran %d times after the first error of the call", m.name, k.n)
			return
		}
		if strings.Contains(m.name, "failing again") && !strings.Contains(res.Err.Error(), "FIRST-ERROR-COLUMN") {
			c.Fail("error-replaced:mid-call", "%s reports %q, the first error is gone", m.name, res.Err.Error())
			return
		}
	}
}
