package props

import (
	"bytes"
	"database/sql"
	"database/sql/driver"
	"errors"
	"fmt"
	"io"
	"math"
	"math/rand"

	"github.com/tobgu/qframe"
	qsql "github.com/tobgu/qframe/config/sql"

	"qverif/fw"
	"qverif/memsql"
	"qverif/model"
)

func init() {
	fw.Register(&fw.Property{
		ID:    "C15",
		Level: "fault_enumeration",
		Rule: "case = one input (CSV document, JSON document, frame to write, SQL result set, frame to insert) with EVERY fault position enumerated (the evidence counters inputs_with_every_position:* give the number of such inputs; one CSV document in 60 has more than 1000 rows and gets faults on and around every row boundary from row 980 on plus random offsets instead, counted as inputs_with_selected_positions): reader fails after k bytes for every k in 0..len under four chunkings (whole, one byte, random, whole with the error returned together with the last bytes); " +
			"writer refuses everything after k accepted bytes for every k in 0..total; driver fails at Prepare, at Query, at Next for every row r in 0..R, delivers an unsupported value at every row, fails at every Exec number; " +
			"evaluation = one (input, fault position, chunking) execution judged by: no panic, and (error reported OR read result equals the fault-free result) / (error reported OR the writer accepted everything); " +
			"non-trivial = fault position strictly inside the data (0 < k < len, r < R); distinct by (input, position, chunking)",
		Assumptions: []string{
			"a fault is a non-EOF error returned by io.Reader.Read, io.Writer.Write or the database/sql driver; short writes come with an error",
			"a late fault after which the data is nevertheless complete may legitimately succeed",
		},
		Exhaustive: func(string) bool { return false },
		Stages:     stages(420, 6000, 0, 0),
		RunCase:    runC15,
	})
}

var errFault = errors.New("qverif: injected I/O fault")

// faultErr varies the identity of the injected error with the fault position: a plain error, an error that wraps
// io.EOF (only io.EOF itself means end of input) and io.ErrUnexpectedEOF.
func faultErr(k int) error {
	switch k % 3 {
	case 1:
		return fmt.Errorf("qverif: connection lost: %w", io.EOF)
	case 2:
		return io.ErrUnexpectedEOF
	}
	return errFault
}

// faultReader delivers data[:k] under a chunking and then fails.
type faultReader struct {
	data   []byte
	k      int
	pos    int
	mode   int // 0 whole, 1 bytewise, 2 random
	rng    *rand.Rand
	faults int
}

func (r *faultReader) Read(p []byte) (int, error) {
	if r.pos >= r.k {
		r.faults++
		return 0, faultErr(r.k)
	}
	if len(p) == 0 {
		return 0, nil
	}
	n := r.k - r.pos
	switch r.mode {
	case 1:
		n = 1
	case 2:
		if m := 1 + r.rng.Intn(97); m < n {
			n = m
		}
	}
	if n > len(p) {
		n = len(p)
	}
	copy(p, r.data[r.pos:r.pos+n])
	r.pos += n
	if r.mode == 3 && r.pos >= r.k {
		// io.Reader may return the error together with the last bytes it could deliver
		r.faults++
		return n, faultErr(r.k)
	}
	return n, nil
}

// faultWriter accepts k bytes and refuses everything after that.
type faultWriter struct {
	k        int
	accepted int
	refused  bool
	// fullCount: the first failing Write takes all its bytes and returns the error together with the full count
	// (a destination that stored the data but could not make it durable); later writes are refused
	fullCount bool
}

func (w *faultWriter) Write(p []byte) (int, error) {
	room := w.k - w.accepted
	if len(p) <= room {
		w.accepted += len(p)
		return len(p), nil
	}
	if w.fullCount && !w.refused {
		w.refused = true
		w.accepted += len(p)
		w.k = 0
		return len(p), errFault
	}
	w.refused = true
	if room < 0 {
		room = 0
	}
	w.accepted += room
	return room, errFault
}

func runC15(c *fw.Case) {
	switch c.No % 6 {
	case 0:
		c15ReadCSV(c)
	case 1:
		c15ReadJSON(c)
	case 2:
		c15Write(c, "ToCSV")
	case 3:
		c15Write(c, "ToJSON")
	case 4:
		c15ReadSQL(c)
	default:
		c15ToSQL(c)
	}
}

func c15ReaderPositions(c *fw.Case, what string, doc []byte, read func(r io.Reader) qframe.QFrame) {
	c15ReaderPositionsAt(c, what, doc, nil, read)
}

// c15ReaderPositionsAt injects the fault at the given positions only (nil = every position 0..len, all chunkings).
func c15ReaderPositionsAt(c *fw.Case, what string, doc []byte, positions []int, read func(r io.Reader) qframe.QFrame) {
	var full qframe.QFrame
	if pv, _ := fw.Guard(func() { full = read(bytes.NewReader(doc)) }); pv != nil || full.Err != nil {
		c.Count("inputs_rejected_fault_free", 1)
		return
	}
	want, err := model.ObserveGuard(full)
	if err != nil {
		c.Count("inputs_rejected_fault_free", 1)
		return
	}
	c.Count("inputs:"+what, 1)
	reported := 0
	modes := []int{0, 1, 2, 3}
	if positions == nil {
		for k := 0; k <= len(doc); k++ {
			positions = append(positions, k)
		}
		c.Count("inputs_with_every_position:"+what, 1)
	} else {
		modes = []int{0, 3}
		c.Count("inputs_with_selected_positions:"+what, 1)
	}
	for _, k := range positions {
		for _, mode := range modes {
			c.Eval(1)
			c.Count("fault_positions:"+what, 1)
			if k > 0 && k < len(doc) {
				c.Nontrivial(what, string(doc), k, mode)
			}
			rd := &faultReader{data: doc, k: k, mode: mode, rng: rand.New(rand.NewSource(int64(k)*7 + int64(mode)))}
			var res qframe.QFrame
			pv, stack := fw.Guard(func() { res = read(rd) })
			modeName := []string{"whole", "bytewise", "random", "whole, error returned together with the last bytes"}[mode]
			if pv != nil {
				if reported < 3 {
					c.Fail("panic:"+what, "%s panicked when the reader failed after %d of %d bytes (%s chunks): %v\n%s", what, k, len(doc), modeName, pv, clip(stack, 1000))
				}
				reported++
				continue
			}
			if res.Err != nil {
				c.Count("faults_reported:"+what, 1)
				continue
			}
			got, oerr := model.ObserveGuard(res)
			if oerr == nil && model.Diff(want, got) == "" {
				c.Count("faults_after_complete_data:"+what, 1)
				continue
			}
			if reported < 3 {
				rows := -1
				if got != nil {
					rows = got.Len()
				}
				c.Fail("swallowed:"+what, "%s returned Err == nil and a frame with %d rows (fault-free: %d rows) although the reader failed after %d of %d bytes (%s chunks)", what, rows, want.Len(), k, len(doc), modeName)
			}
			reported++
		}
	}
}

func c15ReadCSV(c *fw.Case) {
	rng := c.Rng
	if c.No%60 == 0 {
		// a document with more than 1000 rows (the reader switches buffers there): faults on and around every row
		// boundary from row 980 on, on every 25th earlier boundary, and at 150 random offsets
		d := genDoc(rng, "manyrows")
		if _, _, err := d.expected(); err != nil {
			return
		}
		var pos []int
		row := 0
		inQuote := false
		for i, b := range d.bytes {
			if b == '"' {
				inQuote = !inQuote
			}
			if b == '\n' && !inQuote {
				row++
				if row >= 980 || row%25 == 0 {
					pos = append(pos, i, i+1, i+2)
				}
			}
		}
		for k := 0; k < 150; k++ {
			pos = append(pos, rng.Intn(len(d.bytes)+1))
		}
		var ok []int
		for _, p := range pos {
			if p >= 0 && p <= len(d.bytes) {
				ok = append(ok, p)
			}
		}
		c.DescribeLazy(func() interface{} {
			m := d.describe()
			m["operation"] = "ReadCSV of a document with more than 1000 rows, reader failing on/around row boundaries and at random offsets"
			m["fault_positions"] = len(ok)
			return m
		})
		c15ReaderPositionsAt(c, "ReadCSV", d.bytes, ok, func(r io.Reader) qframe.QFrame { return qframe.ReadCSV(r, d.config()...) })
		return
	}
	class := []string{"tiny", "small", "small", "long"}[rng.Intn(4)]
	if !c.Thorough() && class == "long" && rng.Intn(3) > 0 {
		class = "small"
	}
	d := genDoc(rng, class)
	if _, _, err := d.expected(); err != nil {
		return
	}
	c.DescribeLazy(func() interface{} {
		m := d.describe()
		m["operation"] = "ReadCSV with a reader failing at every byte offset"
		return m
	})
	c15ReaderPositions(c, "ReadCSV", d.bytes, func(r io.Reader) qframe.QFrame { return qframe.ReadCSV(r, d.config()...) })
}

func c15Frame(rng *rand.Rand, big bool) *model.Frame {
	rows := model.PickRows(rng, 40)
	if big {
		rows = 150 + rng.Intn(250)
	}
	return model.GenFrame(rng, model.GenOpts{Rows: rows, MinCols: 1, MaxCols: 4, NoCR: true, NoInf: true, UTF8: true, Names: []string{"a", "b", "c", "d", "e"}})
}

func c15ReadJSON(c *fw.Case) {
	rng := c.Rng
	f := c15Frame(rng, rng.Intn(6) == 0)
	qf := model.BuildNew(rng, f)
	if qf.Err != nil || f.Len() == 0 {
		return
	}
	var buf bytes.Buffer
	if err := qf.ToJSON(&buf); err != nil {
		return
	}
	doc := buf.Bytes()
	c.DescribeLazy(func() interface{} {
		return map[string]interface{}{"operation": "ReadJSON with a reader failing at every byte offset", "document": clip(string(doc), 800), "bytes": len(doc)}
	})
	c15ReaderPositions(c, "ReadJSON", doc, func(r io.Reader) qframe.QFrame { return qframe.ReadJSON(r) })
}

func c15Write(c *fw.Case, what string) {
	rng := c.Rng
	f := c15Frame(rng, rng.Intn(5) == 0)
	steps := 2
	if rng.Intn(12) == 0 {
		// row counts at which a writer flushing every so many rows has just flushed when the last row is written
		rows := []int{256, 512, 1024, 1024, 2048, 4096}[rng.Intn(6)]
		f = model.GenFrame(rng, model.GenOpts{Rows: rows, MinCols: 1, MaxCols: 3, NoCR: true, UTF8: true, NoNull: true, SmallInts: true, LowCard: 4, Kinds: []model.Kind{model.KInt, model.KBool, model.KFloat}, Names: []string{"a", "b", "c"}})
		steps = 0
		c.Count("long_frames:"+what, 1)
	}
	root, err := model.MakeRootFrom(rng, f, steps, false)
	if err != nil || len(root.Shadow.Cols) == 0 {
		return
	}
	write := func(w io.Writer) error {
		if what == "ToCSV" {
			return root.QF.ToCSV(w)
		}
		return root.QF.ToJSON(w)
	}
	var full bytes.Buffer
	if err := write(&full); err != nil {
		c.Count("inputs_rejected_fault_free", 1)
		return
	}
	total := full.Len()
	c.Count("inputs:"+what, 1)
	c.DescribeLazy(func() interface{} {
		d := root.Describe(10)
		d["operation"] = what + " with a writer refusing bytes after every offset"
		d["output_bytes"] = total
		return d
	})
	// fault positions: every offset for short outputs; for long ones the first and the last few thousand offsets in
	// steps and a random sample. Every position is tried with a writer that refuses the bytes beyond it and with one
	// that takes the failing write completely and reports the error together with the full count.
	var positions []int
	if total <= 3000 {
		for k := 0; k <= total; k++ {
			positions = append(positions, k)
		}
	} else {
		for k := 0; k < 200; k += 3 {
			positions = append(positions, k)
		}
		for k := total - 9000; k <= total; k += 1 + rng.Intn(40) {
			if k >= 0 {
				positions = append(positions, k)
			}
		}
		positions = append(positions, total-2, total-1, total)
		for i := 0; i < 60; i++ {
			positions = append(positions, rng.Intn(total+1))
		}
	}
	reported := 0
	for pi, k := range positions {
		c.Eval(1)
		c.Count("fault_positions:"+what, 1)
		if k > 0 && k < total {
			c.Nontrivial(what, full.String(), k)
		}
		w := &faultWriter{k: k, fullCount: total <= 3000 && pi%2 == 1 || total > 3000 && pi%3 == 1}
		if total <= 600 {
			// short outputs: both kinds of writer at every position
			w.fullCount = false
		}
		var werr error
		pv, stack := fw.Guard(func() { werr = write(w) })
		if pv != nil {
			if reported < 3 {
				c.Fail("panic:"+what, "%s panicked when the writer refused bytes after %d of %d: %v\n%s", what, k, total, pv, clip(stack, 1000))
			}
			reported++
			continue
		}
		if werr != nil {
			c.Count("faults_reported:"+what, 1)
			continue
		}
		if !w.refused && w.accepted == total {
			c.Count("no_fault_hit:"+what, 1)
			continue
		}
		if reported < 3 {
			c.Fail("swallowed:"+what, "%s returned nil although the writer accepted only %d of %d output bytes (refused a write: %v, error returned with a full count: %v)", what, w.accepted, total, w.refused, w.fullCount)
		}
		reported++
	}
	if total <= 600 {
		for k := 0; k <= total; k++ {
			c.Eval(1)
			c.Count("fault_positions_full_count:"+what, 1)
			w := &faultWriter{k: k, fullCount: true}
			var werr error
			if pv, _ := fw.Guard(func() { werr = write(w) }); pv != nil {
				c.Fail("panic:"+what, "%s panicked when a Write at offset %d of %d returned an error together with its full count: %v", what, k, total, pv)
				return
			}
			if werr == nil && w.refused {
				c.Fail("swallowed:"+what, "%s returned nil although a Write (at offset %d of %d) returned an error together with its full count", what, k, total)
				return
			}
		}
	}
}

// sqlResult generates a result set.
func sqlResult(rng *rand.Rand) *memsql.Table {
	ncols := 1 + rng.Intn(4)
	nrows := rng.Intn(12)
	t := &memsql.Table{}
	kinds := make([]int, ncols)
	for i := 0; i < ncols; i++ {
		t.Cols = append(t.Cols, fmt.Sprintf("c%d", i))
		kinds[i] = rng.Intn(4)
	}
	for r := 0; r < nrows; r++ {
		row := make([]driver.Value, ncols)
		for i := range row {
			switch kinds[i] {
			case 0:
				row[i] = int64(rng.Intn(100) - 50)
			case 1:
				if rng.Intn(4) == 0 {
					row[i] = nil
				} else {
					row[i] = float64(rng.Intn(1000)) / 8
				}
			case 2:
				row[i] = rng.Intn(2) == 0
			default:
				if rng.Intn(4) == 0 {
					row[i] = nil
				} else {
					row[i] = fmt.Sprintf("s%d", rng.Intn(10))
				}
			}
		}
		t.Rows = append(t.Rows, row)
	}
	return t
}

func readSQLWith(t *memsql.Table, f memsql.Faults) (res qframe.QFrame) {
	return readSQLWithArgs(t, f, nil)
}

func readSQLWithArgs(t *memsql.Table, f memsql.Faults, args []interface{}) (res qframe.QFrame) {
	db := memsql.New()
	db.Result = t
	db.Faults = f
	sdb := db.Open()
	defer sdb.Close()
	tx, err := sdb.Begin()
	if err != nil {
		return qframe.QFrame{Err: err}
	}
	defer tx.Rollback() //nolint
	if args != nil {
		return qframe.ReadSQLWithArgs(tx, args, qsql.Query("SELECT * FROM t WHERE a = ?"))
	}
	return qframe.ReadSQL(tx, qsql.Query("SELECT * FROM t"))
}

func c15ReadSQL(c *fw.Case) {
	rng := c.Rng
	t := sqlResult(rng)
	var qargs []interface{}
	if rng.Intn(2) == 0 {
		qargs = []interface{}{int64(7)}
	}
	full := readSQLWithArgs(t, memsql.NoFaults(), qargs)
	if full.Err != nil {
		c.Count("inputs_rejected_fault_free", 1)
		return
	}
	want, err := model.ObserveGuard(full)
	if err != nil {
		return
	}
	c.Count("inputs:ReadSQL", 1)
	c.DescribeLazy(func() interface{} {
		return map[string]interface{}{"operation": "ReadSQL with the driver failing at Prepare, Query, every Next and an unsupported value in every row", "columns": t.Cols, "rows": fmt.Sprint(t.Rows)}
	})
	R := len(t.Rows)
	type fp struct {
		name string
		f    memsql.Faults
		mid  bool
	}
	var fps []fp
	f := memsql.NoFaults()
	f.Prepare = true
	fps = append(fps, fp{"Prepare", f, true})
	f = memsql.NoFaults()
	f.Query = true
	fps = append(fps, fp{"Query", f, true})
	for r := 0; r <= R; r++ {
		f = memsql.NoFaults()
		f.NextAt = r
		fps = append(fps, fp{fmt.Sprintf("Next(row %d of %d)", r, R), f, r < R})
	}
	for r := 0; r < R; r++ {
		f = memsql.NoFaults()
		f.BadValueAt = r
		fps = append(fps, fp{fmt.Sprintf("unsupported value in row %d of %d", r, R), f, true})
	}
	// a driver answering with several result sets that fails while advancing to the next one (reached only by a
	// reader that asks for further result sets; what such a reader returns without faults is its own reference)
	multi := rng.Intn(3) == 0
	var wantMulti *model.Frame
	if multi {
		f = memsql.NoFaults()
		f.ExtraSets = 1 + rng.Intn(2)
		if fm := readSQLWithArgs(t, f, qargs); fm.Err == nil {
			wantMulti, _ = model.ObserveGuard(fm)
		}
		for k := 0; wantMulti != nil && k < f.ExtraSets; k++ {
			g := f
			g.NextSetAt = k
			fps = append(fps, fp{fmt.Sprintf("NextResultSet(advance %d of %d)", k, f.ExtraSets), g, true})
		}
	}
	reported := 0
	for _, p := range fps {
		c.Eval(1)
		c.Count("fault_positions:ReadSQL", 1)
		if p.mid {
			c.Nontrivial("ReadSQL", fmt.Sprint(t.Rows), p.name)
		}
		var res qframe.QFrame
		pv, stack := fw.Guard(func() { res = readSQLWithArgs(t, p.f, qargs) })
		if pv != nil {
			if reported < 3 {
				c.Fail("panic:ReadSQL", "ReadSQL panicked with a driver fault at %s: %v\n%s", p.name, pv, clip(stack, 1000))
			}
			reported++
			continue
		}
		if res.Err != nil {
			c.Count("faults_reported:ReadSQL", 1)
			continue
		}
		got, oerr := model.ObserveGuard(res)
		ref := want
		if p.f.ExtraSets > 0 {
			ref = wantMulti
		}
		if oerr == nil && model.Diff(ref, got) == "" {
			c.Count("faults_after_complete_data:ReadSQL", 1)
			continue
		}
		if reported < 3 {
			rows := -1
			if got != nil {
				rows = got.Len()
			}
			c.Fail("swallowed:ReadSQL:"+firstWord(p.name), "ReadSQL returned Err == nil and %d rows (fault-free: %d rows) although the driver failed at %s", rows, want.Len(), p.name)
		}
		reported++
	}
}

func c15ToSQL(c *fw.Case) {
	rng := c.Rng
	rows := 1 + rng.Intn(15)
	if rng.Intn(3) == 0 {
		// row counts at and around the sizes a writer may batch by (per statement parameter limits divided by the column count)
		rows = []int{99, 100, 127, 128, 199, 200, 249, 250, 256, 333, 334, 499, 500, 512, 666, 999, 1000, 1001, 1024, 1998}[rng.Intn(20)]
	}
	f := model.GenFrame(rng, model.GenOpts{Rows: rows, MinCols: 1, MaxCols: 5, NoCR: true, UTF8: true, Names: []string{"a", "b", "c", "d", "e"}})
	steps := 2
	if rows > 20 {
		ncols := 1 + rng.Intn(5)
		if rng.Intn(2) == 0 {
			// exact multiples (and neighbours) of "parameter limit / number of columns", the usual size of a multi-row statement
			limit := []int{999, 999, 999, 100, 128, 256, 500, 512, 1000, 1024, 2100}[rng.Intn(11)]
			rows = (1+rng.Intn(2))*(limit/ncols) + []int{0, 0, 0, -1, 1}[rng.Intn(5)]
			if rows < 1 {
				rows = 1
			}
		}
		f = model.GenFrame(rng, model.GenOpts{Rows: rows, MinCols: ncols, MaxCols: ncols, NoCR: true, UTF8: true, NoNull: true, SmallInts: true, LowCard: 3, Kinds: []model.Kind{model.KInt, model.KBool, model.KFloat}, Names: []string{"a", "b", "c", "d", "e"}})
		steps = 0 // keep the row count
	}
	root, err := model.MakeRootFrom(rng, f, steps, false)
	if err != nil || len(root.Shadow.Cols) == 0 {
		return
	}
	n := root.Shadow.Len()
	c.DescribeLazy(func() interface{} {
		d := root.Describe(10)
		d["operation"] = "ToSQL with the driver failing at Prepare and at every Exec number"
		return d
	})
	fired := 0
	run := func(f memsql.Faults) (err error, execs int) {
		db := memsql.New()
		db.Faults = f
		sdb := db.Open()
		defer sdb.Close()
		tx, berr := sdb.Begin()
		if berr != nil {
			return berr, 0
		}
		defer tx.Rollback() //nolint
		err = root.QF.ToSQL(tx, qsql.Table("t"))
		fired = db.Fired
		for _, e := range db.Log {
			if e.Kind == "exec" {
				execs++
			}
		}
		return err, execs
	}
	var ferr error
	nexec := 0
	if pv, _ := fw.Guard(func() { ferr, nexec = run(memsql.NoFaults()) }); pv != nil || ferr != nil {
		c.Count("inputs_rejected_fault_free", 1)
		return
	}
	c.Count("inputs:ToSQL", 1)
	// fault positions: Prepare and every Exec call of the fault-free run (for long runs the first and last ones and a sample)
	positions := []int{-1}
	if nexec <= 40 {
		for s := 0; s < nexec; s++ {
			positions = append(positions, s)
		}
	} else {
		positions = append(positions, 0, 1, nexec/2, nexec-3, nexec-2, nexec-1)
		for k := 0; k < 6; k++ {
			positions = append(positions, rng.Intn(nexec))
		}
		c.Count("long_tosql_runs", 1)
	}
	reported := 0
	for _, s := range positions {
		f := memsql.NoFaults()
		name := fmt.Sprintf("Exec #%d of %d (%d rows)", s, nexec, n)
		if s == -1 {
			f.Prepare = true
			name = "Prepare"
			if n == 0 {
				continue
			}
		} else {
			f.ExecAt = s
		}
		c.Eval(1)
		c.Count("fault_positions:ToSQL", 1)
		c.Nontrivial("ToSQL", idKey(root.Shadow.Cols[0].I), fmt.Sprint(root.Shadow.Describe(20)), name)
		var werr error
		pv, stack := fw.Guard(func() { werr, _ = run(f) })
		if pv != nil {
			if reported < 3 {
				c.Fail("panic:ToSQL", "ToSQL panicked with a driver fault at %s: %v\n%s", name, pv, clip(stack, 1000))
			}
			reported++
			continue
		}
		if fired == 0 {
			c.Count("fault_not_reached:ToSQL", 1)
			continue
		}
		if werr == nil {
			if reported < 3 {
				c.Fail("swallowed:ToSQL", "ToSQL returned nil although the driver failed at %s", name)
			}
			reported++
			continue
		}
		c.Count("faults_reported:ToSQL", 1)
	}
}

var _ = sql.ErrNoRows
var _ = math.Pi
