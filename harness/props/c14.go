package props

import (
	"bytes"
	"fmt"
	"github.com/tobgu/qframe/config/groupby"
	"io"
	"math"
	"math/rand"
	"strconv"
	"strings"
	"unicode/utf8"

	"github.com/tobgu/qframe"
	"github.com/tobgu/qframe/config/newqf"

	"qverif/fw"
	"qverif/model"
)

func init() {
	fw.Register(&fw.Property{
		ID:    "C14",
		Level: "exploration",
		Rule: "case = one derived frame whose column names and string cells are drawn from hostile byte material (every single byte value, ASCII controls, quote, backslash, U+2028/2029, truncated/overlong UTF-8, surrogate encodings, long runs) and whose floats are finite values from the C16 classes or NaN; " +
			"ToJSON output is checked with json.Valid and then decoded token by token (UseNumber, key order preserved) against the cells; frames with 0 rows, 0 columns and 1 column included; " +
			"for frames with >=1 row, valid UTF-8 and NaN-free floats ReadJSON(ToJSON(f)) with ColumnOrder/Enums must reproduce f (ints as equal-valued floats); evaluation = one ToJSON document or one ReadJSON inversion; " +
			"non-trivial = frame containing a name or cell that needs escaping; distinct by document bytes",
		Assumptions: []string{
			"floats are finite or NaN (infinities have no JSON representation and are outside the property)",
			"a string equals its decoded form after replacing each invalid byte by U+FFFD",
			"encoding/json is the independent parser; int columns return from ReadJSON as float64(ParseFloat(decimal text))",
		},
		Stages:  stages(20000, 2500000, 0, 0),
		RunCase: runC14,
	})
}

func legalName(s string) bool {
	if s == "" || strings.HasPrefix(s, "$") {
		return false
	}
	if len(s) > 2 && ((strings.HasPrefix(s, "'") && strings.HasSuffix(s, "'")) || (strings.HasPrefix(s, `"`) && strings.HasSuffix(s, `"`))) {
		return false
	}
	return true
}

var hostileFragments = []string{`"`, `\`, `\"`, "\n", "\r", "\t", "\b", "\f", "\x00", "\x01", "\x1f", "\x7f", "/", "</script>", " ", " ", "\u0080", "é", "日本", "\U0001F600",
	"\uFFFD", "\xff", "\xfe", "\xc0\xaf", "\xe2\x82", "\xf0\x9f", "\xed\xa0\x80", "\xed\xbf\xbf", "\xc3", "\x80", "\xbf", "a", "b", "z", " ", "0", "{", "}", "[", "]", ":", ",", "null", "true", "\\u0041", "\\n"}

func hostileString(rng *rand.Rand, utf8Only bool) string {
	for {
		var sb strings.Builder
		n := 1 + rng.Intn(5)
		if rng.Intn(10) == 0 {
			n = rng.Intn(40)
		}
		for i := 0; i < n; i++ {
			if rng.Intn(4) == 0 {
				sb.WriteByte(byte(rng.Intn(256)))
			} else {
				sb.WriteString(hostileFragments[rng.Intn(len(hostileFragments))])
			}
		}
		s := sb.String()
		if utf8Only && !utf8.ValidString(s) {
			continue
		}
		return s
	}
}

func jsonFloat(rng *rand.Rand) float64 {
	for {
		var f float64
		switch rng.Intn(7) {
		case 6:
			f = math.Ldexp(1, rng.Intn(2098)-1074) // exact powers of two have an asymmetric rounding interval
			if rng.Intn(3) == 0 {
				f = math.Nextafter(f, math.Inf(rng.Intn(2)*2-1))
			}
		case 0:
			f = model.FloatPool[rng.Intn(len(model.FloatPool))]
		case 1:
			f = float64(rng.Intn(2001)-1000) / 8
		case 2:
			f = math.Ldexp(float64(rng.Int63n(1<<53)), rng.Intn(2098)-1074)
		case 3:
			f = math.Pow(10, float64(rng.Intn(617)-308))
		case 4:
			f = float64(rng.Int63n(1 << 60))
		default:
			f = math.Float64frombits(rng.Uint64())
		}
		if rng.Intn(2) == 0 {
			f = -f
		}
		if !math.IsInf(f, 0) && !math.IsNaN(f) {
			return f
		}
	}
}

func needsEscape(s string) bool {
	if !utf8.ValidString(s) {
		return true
	}
	for _, r := range s {
		if r < 0x20 || r == '"' || r == '\\' || r == ' ' || r == ' ' {
			return true
		}
	}
	return false
}

func runC14(c *fw.Case) {
	rng := c.Rng
	invertible := c.No%3 == 0 // this case also checks the ReadJSON inversion (needs valid UTF-8, no NaN)
	rows := model.PickRows(rng, 40)
	ncols := 1 + rng.Intn(4)
	switch rng.Intn(12) {
	case 0:
		rows = 0
	case 1:
		ncols = 0
		rows = 0
	case 2:
		ncols = 1
	}
	if invertible && (rows == 0 || ncols == 0) {
		rows, ncols = 1+rng.Intn(10), 1+rng.Intn(3)
	}
	if c.No%40 == 7 {
		// large documents (output well beyond 4 KiB, every row count up to a few thousand is hit over the run)
		rows = 100 + rng.Intn(2400)
		if ncols == 0 {
			ncols = 2
		}
	}
	f := &model.Frame{}
	used := map[string]bool{}
	escapes := false
	for i := 0; i < ncols; i++ {
		var name string
		for {
			if rng.Intn(3) == 0 {
				name = model.NamePool[rng.Intn(len(model.NamePool))]
			} else {
				name = hostileString(rng, invertible)
			}
			if legalName(name) && !used[name] {
				break
			}
		}
		used[name] = true
		escapes = escapes || needsEscape(name)
		kind := model.AllKinds[rng.Intn(5)]
		col := model.NewCol(name, kind, rows)
		for r := 0; r < rows; r++ {
			switch kind {
			case model.KInt:
				col.I[r] = model.IntPool[rng.Intn(len(model.IntPool))]
				if rng.Intn(2) == 0 {
					col.I[r] = rng.Intn(2001) - 1000
				}
			case model.KFloat:
				col.F[r] = jsonFloat(rng)
				if !invertible && rng.Intn(6) == 0 {
					col.F[r] = math.NaN()
				}
			case model.KBool:
				col.B[r] = rng.Intn(2) == 0
			default:
				if rng.Intn(6) == 0 {
					continue
				}
				var s string
				if kind == model.KEnum {
					s = []string{"x", `q"`, "\\", "\n", "é", " ", "plain", ""}[rng.Intn(8)]
					if !invertible && rng.Intn(4) == 0 {
						s = []string{"\xff", "\xc3", "a\x00"}[rng.Intn(3)]
					}
				} else {
					s = hostileString(rng, invertible)
					if rng.Intn(8) == 0 {
						s = ""
					}
				}
				escapes = escapes || needsEscape(s)
				col.S[r] = model.StrP(s)
			}
		}
		if kind == model.KEnum {
			col.EnumKnown = true
		}
		f.Cols = append(f.Cols, col)
	}
	qf := model.BuildNew(rng, f)
	if qf.Err != nil {
		c.Count("root_build_failed", 1)
		return
	}
	meta := model.MetaOf(f)
	if rows > 1 {
		qf, _ = model.Derive(rng, qf, meta, rng.Intn(3), false)
	}
	sh, err := model.ObserveGuard(qf)
	if err != nil {
		c.Count("root_build_failed", 1)
		return
	}
	meta.Apply(sh)
	if rng.Intn(5) == 0 {
		if up, op := model.UpperCaseEnum(rng, qf, sh, meta); op != "" {
			if sh2, e := model.ObserveGuard(up); e == nil {
				qf, sh = up, sh2
				meta.Apply(sh)
				c.Count("frames_with_uppercased_enum", 1)
			}
		}
	}
	if rng.Intn(8) == 0 && len(sh.Cols) >= 2 && sh.Len() > 0 {
		// a frame produced by Aggregate whose columns carry aliases (As), serialised after its source was serialised
		_ = qf.ToJSON(&bytes.Buffer{})
		key, x := sh.Cols[0].Name, sh.Cols[1].Name
		var ag qframe.QFrame
		if pv, _ := fw.Guard(func() {
			ag = qf.GroupBy(groupby.Columns(key), groupby.Null(true)).Aggregate(
				qframe.Aggregation{Fn: "count", Column: x, As: "alias one of " + x}, qframe.Aggregation{Fn: "count", Column: x, As: "alias two"}, qframe.Aggregation{Fn: "count", Column: key, As: "n"})
		}); pv == nil && ag.Err == nil {
			if sh2, e := model.ObserveGuard(ag); e == nil {
				km := meta[key]
				meta = model.Meta{}
				if km != nil {
					meta[key] = km
				}
				meta.Apply(sh2)
				qf, sh = ag, sh2
				c.Count("frames_produced_by_aggregate_with_aliases", 1)
			}
		}
	}
	var doc []byte
	c.DescribeLazy(func() interface{} {
		d := sh.Describe(10)
		d["json"] = strconv.Quote(clip(string(doc), 1200))
		d["index_shape"] = model.IndexShape(qf)
		return d
	})
	c.Eval(1)
	// the destination: a fresh buffer, a buffer with spare capacity, one that already holds output, one that was reset,
	// or the same behind a plain io.Writer
	buf := &bytes.Buffer{}
	prefix := 0
	var dest io.Writer = buf
	switch rng.Intn(6) {
	case 0:
		buf = bytes.NewBuffer(make([]byte, 0, 64+rng.Intn(8000)))
		dest = buf
	case 1:
		buf.WriteString("earlier output\n")
		buf.Grow(rng.Intn(5000))
		prefix = buf.Len()
		dest = buf
	case 2:
		buf.WriteString(strings.Repeat("x", 1+rng.Intn(3000)))
		buf.Reset()
		dest = buf
	case 3:
		dest = struct{ io.Writer }{buf}
	}
	var werr error
	if !c.GuardFail("tojson", "ToJSON", func() { werr = qf.ToJSON(dest) }) {
		return
	}
	doc = buf.Bytes()[prefix:]
	if werr != nil {
		c.Fail("tojson-err", "ToJSON failed: %v", werr)
		return
	}
	if escapes {
		c.Nontrivial(string(doc))
		c.Count("documents_needing_escapes", 1)
	}
	if msg := checkJSONAgainst(doc, sh); msg != "" {
		key := "tojson:" + firstWord(msg)
		if strings.HasPrefix(msg, "invalid") || strings.HasPrefix(msg, "keys") {
			for _, col := range sh.Cols {
				if needsEscape(col.Name) {
					key += ":column-name-needs-escaping"
					break
				}
			}
		}
		c.Fail(key, "ToJSON: %s", msg)
		return
	}
	if !invertible || sh.Len() == 0 {
		return
	}
	// ---- ReadJSON inverts ToJSON
	c.Eval(1)
	c.Count("inversions", 1)
	enums := map[string][]string{}
	for _, col := range sh.Cols {
		if col.Kind == model.KEnum {
			enums[col.Name] = nil
		}
	}
	fns := []newqf.ConfigFunc{newqf.ColumnOrder(sh.Names()...)}
	if len(enums) > 0 {
		fns = append(fns, newqf.Enums(enums))
	}
	var back qframe.QFrame
	if !c.GuardFail("readjson", "ReadJSON(ToJSON(f))", func() { back = qframe.ReadJSON(bytes.NewReader(doc), fns...) }) {
		return
	}
	if back.Err != nil {
		c.Fail("readjson-err", "ReadJSON rejected the output of ToJSON: %v", back.Err)
		return
	}
	got, oerr := model.ObserveGuard(back)
	if oerr != nil {
		c.Fail("observe", "ReadJSON result: %v", oerr)
		return
	}
	want := &model.Frame{}
	for _, col := range sh.Cols {
		if col.Kind == model.KInt {
			fc := model.NewCol(col.Name, model.KFloat, col.Len())
			for r, v := range col.I {
				fc.F[r], _ = strconv.ParseFloat(strconv.Itoa(v), 64)
			}
			want.Cols = append(want.Cols, fc)
		} else {
			want.Cols = append(want.Cols, col)
		}
	}
	if d := model.Diff(want, got); d != "" {
		c.Fail("readjson-differs", "ReadJSON(ToJSON(f)) differs from f: %s", d)
	}
	_ = fmt.Sprint
}
