package props

import (
	"fmt"
	"math"
	"math/rand"

	"github.com/tobgu/qframe"

	"qverif/fw"
	"qverif/hooks"
	"qverif/model"
)

func init() {
	fw.Register(&fw.Property{
		ID:    "C03",
		Level: "exploration",
		Rule: "case = one derived frame x 4 Sort calls with 1-4 random Order{Column,Reverse,NullLast} keys over all column types (random class), or a key column with a constructed pattern " +
			"(sorted, reversed, organ pipe, sawtooth, few values, all equal; sizes around the 12/40 regime limits) or a McIlroy antiquicksort permutation mapped onto int/float/string/enum keys and sorted on a permuted physical index (adversarial class); " +
			"evaluation = one Sort checked by the permutation + whole-row + consecutive-pairs-non-decreasing checker; non-trivial = n>=2 with a tie or null in the first key, or adversarial input; distinct by (orders, id sequence of the input)",
		Assumptions: []string{
			"enum sort keys are declared (strict) enums only; the order of derived enums is documented as undefined",
			"observation through typed views is faithful (C09)",
			"the heapsort/ninther/insertion counters come from verif hooks; without hooks regime reachability is not measured",
		},
		Stages:  stages(10000, 400000, 400, 0),
		RunCase: runC03,
		Conclude: func(tier string, c map[string]int64, st []string) string {
			if r := shapeConclude(30)(tier, c, st); r != "" {
				return r
			}
			if c["shape:unknown"] > 0 && c["shape:identity"] == 0 {
				return "" // hooks unavailable
			}
			need := int64(3)
			if tier == "thorough" {
				need = 10
			}
			if c["regime:heapsort"] == 0 && c["regime:ninther"] == 0 {
				// the sorter no longer reports the quicksort regimes (a different algorithm): nothing to demand
				return ""
			}
			if c["regime:heapsort"] < need {
				return fmt.Sprintf("heapsort fallback reached only %d times (need %d)", c["regime:heapsort"], need)
			}
			if c["regime:ninther"] == 0 || c["regime:insertion"] == 0 {
				return "ninther or insertion regime never reached"
			}
			return ""
		},
	})
}

func validSortKey(col *model.Col) bool {
	return col.Kind != model.KEnum || col.Strict()
}

func genOrders(rng *rand.Rand, sh *model.Frame, first string) []qframe.Order {
	var cands []string
	for _, col := range sh.Cols {
		if validSortKey(col) {
			cands = append(cands, col.Name)
		}
	}
	if len(cands) == 0 {
		return nil
	}
	n := 1 + rng.Intn(4)
	if rng.Intn(2) == 0 {
		n = 1 + rng.Intn(2)
	}
	var orders []qframe.Order
	if first != "" {
		orders = append(orders, qframe.Order{Column: first, Reverse: rng.Intn(2) == 0, NullLast: rng.Intn(2) == 0})
	}
	for len(orders) < n {
		orders = append(orders, qframe.Order{Column: cands[rng.Intn(len(cands))], Reverse: rng.Intn(2) == 0, NullLast: rng.Intn(2) == 0})
	}
	return orders
}

// checkSort runs Sort on the real frame and checks the result against the statement.
func checkSort(c *fw.Case, root *model.Root, orders []qframe.Order, class string) {
	sh := root.Shadow
	what := fmt.Sprintf("Sort(%+v) [%s, n=%d, index %s]", orders, class, sh.Len(), root.Shape)
	hooks.ResetSortCounters()
	var res qframe.QFrame
	c.Eval(1)
	ordersCopy := append([]qframe.Order(nil), orders...)
	if !c.GuardFail("sort", what, func() { res = root.QF.Sort(orders...) }) {
		return
	}
	if fmt.Sprintf("%+v", orders) != fmt.Sprintf("%+v", ordersCopy) {
		c.Fail("argument-changed", "Sort changed the caller's slice of orders from %+v to %+v", ordersCopy, orders)
		return
	}
	h, n9, ins := hooks.SortCounters()
	c.Count("regime:heapsort", int64(h))
	c.Count("regime:ninther", int64(n9))
	c.Count("regime:insertion", int64(ins))
	if h > 0 {
		c.Count("sorts_reaching_heapsort", 1)
	}
	if res.Err != nil {
		c.Fail("err", "%s rejected: %v", what, res.Err)
		return
	}
	got, err := model.ObserveGuard(res)
	if err != nil {
		c.Fail("observe", "%s: cannot observe result: %v", what, err)
		return
	}
	// schema unchanged
	if len(got.Cols) != len(sh.Cols) {
		c.Fail("schema", "%s: columns changed: %v -> %v", what, sh.Names(), got.Names())
		return
	}
	for i, col := range sh.Cols {
		if got.Cols[i].Name != col.Name || got.Cols[i].Kind != col.Kind {
			c.Fail("schema", "%s: column %d changed from %s(%s) to %s(%s)", what, i, col.Name, col.Kind, got.Cols[i].Name, got.Cols[i].Kind)
			return
		}
	}
	if got.Len() != sh.Len() {
		c.Fail("rowcount", "%s: %d rows in, %d rows out", what, sh.Len(), got.Len())
		return
	}
	// permutation + whole rows
	pos := rowsByID(sh)
	seen := make(map[int]bool, got.Len())
	src := make([]int, got.Len()) // input row of each output row
	for r, id := range got.IDs() {
		p, ok := pos[id]
		if !ok {
			c.Fail("not-a-row", "%s: output row %d has id %d which is not in the input", what, r, id)
			return
		}
		if seen[id] {
			c.Fail("duplicate-row", "%s: id %d appears twice in the output", what, id)
			return
		}
		seen[id] = true
		src[r] = p
		for ci, col := range sh.Cols {
			if !model.CellEq(col, p, got.Cols[ci], r) {
				c.Fail("row-torn", "%s: row id %d column %q changed from %s to %s", what, id, col.Name, col.CellString(p), got.Cols[ci].CellString(r))
				return
			}
		}
	}
	// ordering of consecutive pairs
	for r := 0; r+1 < len(src); r++ {
		a, b := src[r], src[r+1]
		cmp := 0
		for _, o := range orders {
			col := sh.Col(o.Column)
			cmp = model.SortCmp(col, a, b, o.Reverse, o.NullLast)
			if cmp != 0 {
				break
			}
		}
		if cmp > 0 {
			mode := ""
			for _, o := range orders {
				mode += fmt.Sprintf("%s%v%v,", sh.Col(o.Column).Kind, o.Reverse, o.NullLast)
			}
			cells := ""
			for _, o := range orders {
				col := sh.Col(o.Column)
				cells += fmt.Sprintf(" %s:%s>%s", o.Column, col.CellString(a), col.CellString(b))
			}
			c.Fail("order:"+class+":"+keyModes(sh, orders), "%s: output rows %d and %d decrease:%s", what, r, r+1, cells)
			return
		}
	}
	// non-trivial?
	if sh.Len() >= 2 {
		first := sh.Col(orders[0].Column)
		nt := class == "adversarial"
		if !nt {
			seenK := map[string]bool{}
			for r := 0; r < sh.Len(); r++ {
				k := model.KeyString(first, r)
				if first.IsNull(r) || seenK[k] {
					nt = true
					break
				}
				seenK[k] = true
			}
		}
		if nt {
			c.Nontrivial(fmt.Sprint(orders), idKey(sh.IDs()))
			c.Count("nontrivial_sorts", 1)
		}
	}
}

func keyModes(sh *model.Frame, orders []qframe.Order) string {
	s := ""
	for i, o := range orders {
		if i > 1 {
			s += "+"
			break
		}
		s += sh.Col(o.Column).Kind.String()
		if o.Reverse {
			s += "R"
		}
		if o.NullLast {
			s += "L"
		}
		s += ","
	}
	return s
}

func runC03(c *fw.Case) {
	rng := c.Rng
	switch {
	case c.No%10 < 6:
		c03Random(c, rng)
	case c.No%10 < 8:
		c03Pattern(c, rng)
	default:
		c03Adversarial(c, rng)
	}
}

func c03Random(c *fw.Case, rng *rand.Rand) {
	maxRows := 300
	if c.Thorough() {
		switch rng.Intn(40) {
		case 0:
			maxRows = 60000
		case 1, 2, 3:
			maxRows = 5000
		}
	} else if rng.Intn(40) == 0 {
		maxRows = 5000
	}
	rows := model.PickRows(rng, maxRows)
	twoEnums := false
	switch {
	case c.No%1500 == 5:
		// frames beyond 2^16 rows with every remainder modulo 4 (a sorter may split long inputs into parts)
		rows = 65536 + rng.Intn(4500)
		maxRows = rows
		c.Count("frames_beyond_65536_rows", 1)
	case c.No%60 == 21:
		// several enum keys on a frame long enough for a distribution sort
		rows = 512 + rng.Intn(2600)
		maxRows = rows
		twoEnums = true
	}
	if maxRows > 5000 && rows < 20000 {
		rows = 20000 + rng.Intn(maxRows-20000)
	}
	o := model.GenOpts{Rows: rows, MinCols: 2, MaxCols: 6, ID: true, NoCR: true}
	if rng.Intn(2) == 0 {
		o.LowCard = 1 + rng.Intn(4)
	}
	if rows >= 65536 {
		o.MinCols, o.MaxCols, o.NoNull = 2, 3, false
		o.Kinds = []model.Kind{model.KInt, model.KFloat, model.KBool, model.KString}
	}
	f := model.GenFrame(rng, o)
	if twoEnums {
		for _, nm := range []string{"en1", "en2", "en3"} {
			ec := model.GenCol(rng, nm, model.KEnum, rows, &model.GenOpts{NoCR: true, LowCard: 2 + rng.Intn(5)})
			if !ec.Strict() {
				// declared values: the order of the column is then specified
				seen := map[string]bool{}
				for _, p := range ec.S {
					if p != nil && !seen[*p] {
						seen[*p] = true
						ec.EnumVals = append(ec.EnumVals, *p)
					}
				}
				if len(ec.EnumVals) == 0 {
					ec.EnumVals = []string{"only"}
				}
				rng.Shuffle(len(ec.EnumVals), func(i, j int) { ec.EnumVals[i], ec.EnumVals[j] = ec.EnumVals[j], ec.EnumVals[i] })
			}
			f.Cols = append(f.Cols, ec)
		}
		c.Count("frames_with_several_enum_keys", 1)
	}
	if rng.Intn(12) == 0 && rows >= 20 {
		// an enum key column at the limits of its code space: 254 or 255 distinct values (declared or derived), with nulls
		card := 254 + rng.Intn(2)
		if rows < card {
			card = rows
		}
		ec := model.NewCol("ebig", model.KEnum, rows)
		ec.EnumKnown = true
		vals := make([]string, card)
		for i := range vals {
			vals[i] = fmt.Sprintf("v%03d", (i*37)%card)
		}
		for i := range ec.S {
			switch {
			case i < card:
				ec.S[i] = model.StrP(vals[i]) // every value occurs
			case rng.Intn(5) > 0:
				ec.S[i] = model.StrP(vals[rng.Intn(card)])
			}
		}
		rng.Shuffle(rows, func(i, j int) { ec.S[i], ec.S[j] = ec.S[j], ec.S[i] })
		if rows > card {
			ec.S[rng.Intn(rows)] = nil
		}
		if rng.Intn(2) == 0 {
			ec.EnumVals = vals
		}
		f.Cols = append(f.Cols, ec)
		c.Count("frames_with_enum_column_of_254_or_255_values", 1)
	}
	root, err := model.MakeRootFrom(rng, f, 4, true)
	if err != nil {
		c.Count("root_build_failed", 1)
		return
	}
	if rng.Intn(8) == 0 {
		if ar := aggregateDerive(rng, root); ar != nil {
			root = ar
			c.Count("roots_produced_by_aggregate", 1)
		}
	}
	c.Count("shape:"+root.Shape, 1)
	var all []string
	c.DescribeLazy(func() interface{} {
		d := root.Describe(30)
		d["class"] = "random"
		d["orders"] = all
		return d
	})
	for k := 0; k < 4; k++ {
		orders := genOrders(rng, root.Shadow, "")
		if twoEnums && k < 2 && root.Shadow.Col("en1") != nil && root.Shadow.Col("en2") != nil && root.Shadow.Col("en3") != nil {
			// only enum keys
			orders = nil
			for _, nm := range []string{"en1", "en2", "en3"}[:2+rng.Intn(2)] {
				orders = append(orders, qframe.Order{Column: nm, Reverse: rng.Intn(2) == 0, NullLast: rng.Intn(2) == 0})
			}
			rng.Shuffle(len(orders), func(i, j int) { orders[i], orders[j] = orders[j], orders[i] })
		}
		if orders == nil {
			return
		}
		all = append(all, fmt.Sprintf("%+v", orders))
		checkSort(c, root, orders, "random")
	}
}

// patternValues produces n ints following a classic sort-stressing pattern.
func patternValues(rng *rand.Rand, n int) ([]int, string) {
	v := make([]int, n)
	name := ""
	switch rng.Intn(8) {
	case 0:
		name = "sorted"
		for i := range v {
			v[i] = i
		}
	case 1:
		name = "reversed"
		for i := range v {
			v[i] = n - i
		}
	case 2:
		name = "organpipe"
		for i := range v {
			if i < n/2 {
				v[i] = i
			} else {
				v[i] = n - i
			}
		}
	case 3:
		name = "sawtooth"
		m := 2 + rng.Intn(7)
		for i := range v {
			v[i] = i % m
		}
	case 4:
		name = "allequal"
	case 5:
		name = "fewvalues"
		m := 2 + rng.Intn(3)
		for i := range v {
			v[i] = rng.Intn(m)
		}
	case 6:
		name = "sorted+swaps"
		for i := range v {
			v[i] = i
		}
		for k := 0; k < 1+n/20; k++ {
			if n > 1 {
				i, j := rng.Intn(n), rng.Intn(n)
				v[i], v[j] = v[j], v[i]
			}
		}
	default:
		name = "plateau"
		for i := range v {
			v[i] = i / (1 + n/5)
		}
	}
	return v, name
}

// keyColumnFromInts maps integer ranks onto a key column of the given kind (order preserving).
func keyColumnFromInts(name string, kind model.Kind, vals []int, nullEvery int) *model.Col {
	n := len(vals)
	col := model.NewCol(name, kind, n)
	maxv := 0
	for _, v := range vals {
		if v > maxv {
			maxv = v
		}
	}
	if kind == model.KEnum {
		col.EnumKnown = true
		// declared order is deliberately not alphabetical: rank k -> value "v<maxv-k>" zero padded
		for k := 0; k <= maxv; k++ {
			col.EnumVals = append(col.EnumVals, fmt.Sprintf("v%04d", maxv-k))
		}
	}
	for i, v := range vals {
		isNull := nullEvery > 0 && i%nullEvery == nullEvery-1
		switch kind {
		case model.KInt:
			col.I[i] = v - maxv/2
		case model.KFloat:
			col.F[i] = float64(v)/4 - 3
			if isNull {
				col.F[i] = math.NaN()
			}
		case model.KBool:
			col.B[i] = v%2 == 1
		case model.KString:
			if !isNull {
				col.S[i] = model.StrP(fmt.Sprintf("k%07d", v))
			}
		case model.KEnum:
			if !isNull {
				col.S[i] = model.StrP(col.EnumVals[v])
			}
		}
	}
	return col
}

var c03Sizes = []int{2, 3, 6, 7, 11, 12, 13, 14, 20, 39, 40, 41, 42, 50, 80, 81, 100, 128, 200, 255, 500, 1000}

func c03Pattern(c *fw.Case, rng *rand.Rand) {
	n := c03Sizes[rng.Intn(len(c03Sizes))]
	if c.Thorough() && rng.Intn(20) == 0 {
		n = 5000 + rng.Intn(20000)
	}
	vals, pname := patternValues(rng, n)
	kinds := []model.Kind{model.KInt, model.KFloat, model.KString, model.KEnum, model.KBool}
	kind := kinds[rng.Intn(len(kinds))]
	if kind == model.KEnum {
		mx := 0
		for _, v := range vals {
			if v > mx {
				mx = v
			}
		}
		if mx > 250 {
			kind = model.KString
		}
	}
	nullEvery := 0
	if rng.Intn(3) == 0 {
		nullEvery = 2 + rng.Intn(5)
	}
	f := model.GenFrame(rng, model.GenOpts{Rows: n, MinCols: 1, MaxCols: 3, ID: true, NoCR: true})
	f.Cols = append(f.Cols, keyColumnFromInts("key", kind, vals, nullEvery))
	root, err := model.MakeRootFrom(rng, f, 2, false)
	if err != nil {
		c.Count("root_build_failed", 1)
		return
	}
	c.Count("shape:"+root.Shape, 1)
	c.Count("pattern:"+pname, 1)
	var all []string
	c.DescribeLazy(func() interface{} {
		d := root.Describe(30)
		d["class"] = "pattern:" + pname
		d["orders"] = all
		return d
	})
	for k := 0; k < 3; k++ {
		orders := genOrders(rng, root.Shadow, "key")
		all = append(all, fmt.Sprintf("%+v", orders))
		checkSort(c, root, orders, "pattern")
	}
}

func c03Adversarial(c *fw.Case, rng *rand.Rand) {
	sizes := []int{50, 64, 100, 200, 255, 300, 500, 1000, 2000}
	n := sizes[rng.Intn(len(sizes))]
	if c.Thorough() && rng.Intn(10) == 0 {
		n = 5000 + rng.Intn(45000)
	}
	killer, refHeap := model.AntiQuicksort(n)
	kinds := []model.Kind{model.KInt, model.KFloat, model.KString, model.KEnum}
	kind := kinds[rng.Intn(len(kinds))]
	if kind == model.KEnum && n > 250 {
		kind = model.KInt
	}
	reverse := rng.Intn(2) == 0
	// Physical layout: row r carries pos[r]; sorting by pos puts row with pos k at logical position k.
	// The killer value of logical position k must therefore sit in physical row r with pos[r] == k.
	perm := rng.Perm(n)
	vals := make([]int, n)
	for r := 0; r < n; r++ {
		v := killer[perm[r]]
		if reverse {
			v = n - 1 - v
		}
		vals[r] = v
	}
	f := &model.Frame{}
	posCol := model.NewCol("pos", model.KInt, n)
	copy(posCol.I, perm)
	idCol := model.NewCol(model.IDCol, model.KInt, n)
	for i := range idCol.I {
		idCol.I[i] = 7000 + i
	}
	payload := model.GenCol(rng, "p", model.AllKinds[rng.Intn(5)], n, &model.GenOpts{NoCR: true})
	f.Cols = []*model.Col{idCol, posCol, keyColumnFromInts("key", kind, vals, 0), payload}
	lead := ""
	if rng.Intn(3) == 0 {
		// a constant (or all-null) leading key: the killer key decides as second key
		lk := []model.Kind{model.KInt, model.KFloat, model.KString, model.KBool}[rng.Intn(4)]
		lc := model.NewCol("lead", lk, n)
		if lk == model.KFloat && rng.Intn(2) == 0 {
			for i := range lc.F {
				lc.F[i] = math.NaN()
			}
		}
		f.Cols = append(f.Cols, lc)
		lead = "lead"
	}
	qf := model.BuildNew(rng, f)
	if qf.Err != nil {
		c.Count("root_build_failed", 1)
		return
	}
	var sorted qframe.QFrame
	if pv, _ := fw.Guard(func() { sorted = qf.Sort(qframe.Order{Column: "pos"}) }); pv != nil || sorted.Err != nil {
		c.Count("adversarial_setup_failed", 1)
		return
	}
	sh, err := model.ObserveGuard(sorted)
	if err != nil {
		c.Count("adversarial_setup_failed", 1)
		return
	}
	model.MetaOf(f).Apply(sh)
	// is the logical order the intended one?
	ok := true
	for k, p := range sh.Col("pos").I {
		if p != k {
			ok = false
			break
		}
	}
	if !ok {
		c.Count("adversarial_setup_not_as_intended", 1)
	}
	root := &model.Root{Shadow: sh, QF: sorted, Path: "new", Ops: []string{"Sort(pos)"}, Shape: model.IndexShape(sorted)}
	c.Count("shape:"+root.Shape, 1)
	c.Count("adversarial_inputs", 1)
	if refHeap > 0 {
		c.Count("adversarial_replica_reached_heapsort", 1)
	}
	orders := []qframe.Order{}
	if lead != "" {
		orders = append(orders, qframe.Order{Column: lead, Reverse: rng.Intn(2) == 0, NullLast: rng.Intn(2) == 0})
	}
	orders = append(orders, qframe.Order{Column: "key", Reverse: reverse, NullLast: rng.Intn(2) == 0})
	c.DescribeLazy(func() interface{} {
		d := root.Describe(20)
		d["class"] = fmt.Sprintf("adversarial n=%d kind=%s reverse=%v lead=%q", n, kind, reverse, lead)
		d["orders"] = fmt.Sprintf("%+v", orders)
		return d
	})
	checkSort(c, root, orders, "adversarial")
}
