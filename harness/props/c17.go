package props

import (
	"bytes"
	"encoding/json"
	"fmt"
	"math"
	"math/rand"
	"sort"
	"strings"

	"github.com/tobgu/qframe"
	"github.com/tobgu/qframe/config/csv"
	"github.com/tobgu/qframe/config/groupby"
	"github.com/tobgu/qframe/config/newqf"

	"qverif/fw"
	"qverif/model"
)

func init() {
	fw.Register(&fw.Property{
		ID:    "C17",
		Level: "exploration",
		Rule: "case = one declared value list (1..255 values in random, non-alphabetical order; 254/255 emphasised) or one derived cardinality (0..300, 254/255/256 emphasised) with a data column inside/outside the set, with/without nulls, built through New ([]*string, []string, ConstString), ReadCSV and ReadJSON; " +
			"checks: cells reported exactly (null distinct from \"\" and from every value); every ordering/equality comparator against every declared value (sampled above 40 values) and in/like sets hitting ranks 0,63,64,127,128,191,192,254 compared with the rank-based reference; Sort in all Reverse x NullLast modes; " +
			"undeclared data values rejected by all three construction paths; undeclared filter constants rejected for every comparator; >255 declared or derived values rejected without panic; evaluation = one construction or one filter/sort; non-trivial = declared list with >=2 values whose order is not alphabetical, or cardinality >= 254, or a rejection case",
		Assumptions: []string{
			"values used with ReadCSV contain no CR and (when nulls are present) no empty string; values used with ReadJSON are valid UTF-8",
		},
		Stages:  stages(3000, 80000, 0, 0),
		RunCase: runC17,
	})
}

func enumValues(rng *rand.Rand, n int) []string {
	vals := make([]string, 0, n)
	seen := map[string]bool{}
	special := []string{"", "null", "NULL", " ", "a,b", "q\"", "é", "Z", "a", "A", "0", "-1", "true", "line\nfeed", "日本", "\\"}
	for len(vals) < n {
		var s string
		if rng.Intn(4) == 0 && n < 60 {
			s = special[rng.Intn(len(special))]
		} else {
			s = fmt.Sprintf("v%03d", rng.Intn(5000))
		}
		if !seen[s] {
			seen[s] = true
			vals = append(vals, s)
		}
	}
	rng.Shuffle(len(vals), func(i, j int) { vals[i], vals[j] = vals[j], vals[i] })
	return vals
}

type enumBuild struct {
	path string
	qf   qframe.QFrame
}

// buildEnum constructs the frame {__id, e} through the requested path. declared may be nil (derived enum).
func buildEnum(path string, ids []int, cells []*string, declared []string) (res qframe.QFrame) {
	enums := map[string][]string{"e": declared}
	switch path {
	case "new-ptr":
		sp := make([]*string, len(cells))
		for i, s := range cells {
			if s != nil {
				sp[i] = model.StrP(*s)
			}
		}
		opt := newqf.Enums(enums)
		_ = qframe.New(map[string]interface{}{model.IDCol: append([]int(nil), ids...), "e": append([]*string(nil), sp...)}, opt)
		return qframe.New(map[string]interface{}{model.IDCol: append([]int(nil), ids...), "e": sp}, opt)
	case "new-str":
		ss := make([]string, len(cells))
		for i, s := range cells {
			ss[i] = *s
		}
		return qframe.New(map[string]interface{}{model.IDCol: append([]int(nil), ids...), "e": ss}, newqf.Enums(enums))
	case "new-const":
		var v *string
		if len(cells) > 0 && cells[0] != nil {
			v = model.StrP(*cells[0])
		}
		return qframe.New(map[string]interface{}{model.IDCol: append([]int(nil), ids...), "e": qframe.ConstString{Val: v, Count: len(cells)}}, newqf.Enums(enums))
	case "csv":
		var buf bytes.Buffer
		buf.WriteString(model.IDCol + ",e\n")
		hasNull := false
		for i, s := range cells {
			fmt.Fprintf(&buf, "%d,", ids[i])
			if s == nil {
				hasNull = true
			} else {
				buf.WriteString(model.CSVField(*s, ',', *s == ""))
			}
			buf.WriteString("\n")
		}
		fns := []csv.ConfigFunc{csv.Types(map[string]string{"e": "enum", model.IDCol: "int"}), csv.EmptyNull(hasNull)}
		if declared != nil {
			fns = append(fns, csv.EnumValues(map[string][]string{"e": declared}))
		}
		// the same option values serve two reads (a caller configuring once and reading several files): the second result is used
		_ = qframe.ReadCSV(bytes.NewReader(buf.Bytes()), fns...)
		return qframe.ReadCSV(bytes.NewReader(buf.Bytes()), fns...)
	default: // json
		recs := make([]map[string]interface{}, len(cells))
		for i, s := range cells {
			recs[i] = map[string]interface{}{model.IDCol: ids[i], "e": nil}
			if s != nil {
				recs[i]["e"] = *s
			}
		}
		b, _ := json.Marshal(recs)
		opts := []newqf.ConfigFunc{newqf.Enums(enums), newqf.ColumnOrder(model.IDCol, "e")}
		_ = qframe.ReadJSON(bytes.NewReader(b), opts...)
		return qframe.ReadJSON(bytes.NewReader(b), opts...)
	}
}

func pathOK(path string, cells []*string, declared []string) bool {
	hasNull, hasEmpty, allSame := false, false, true
	for _, s := range cells {
		if s == nil {
			hasNull = true
		} else {
			if *s == "" {
				hasEmpty = true
			}
			if strings.Contains(*s, "\r") {
				return false
			}
		}
		if (s == nil) != (cells[0] == nil) || (s != nil && *s != *cells[0]) {
			allSame = false
		}
	}
	switch path {
	case "new-str":
		return !hasNull
	case "new-const":
		return allSame && len(cells) > 0
	case "csv":
		return !(hasNull && hasEmpty) && len(cells) > 0
	case "json":
		// ReadJSON decides the column type from the first record; numbers for the id column come back as floats
		return len(cells) > 0
	}
	return true
}

var c17Paths = []string{"new-ptr", "new-str", "new-const", "csv", "json"}

func observeEnum(c *fw.Case, what string, qf qframe.QFrame, wantCells []*string) bool {
	if qf.Err != nil {
		c.Fail("construct-rejects-valid:"+firstWord(what), "%s rejected valid enum data: %v", what, qf.Err)
		return false
	}
	var ok = true
	c.GuardFail("enumview", what, func() {
		if typ := qf.ColumnTypeMap()["e"]; typ != "enum" {
			c.Fail("not-enum", "%s: column e has type %q", what, typ)
			ok = false
			return
		}
		v, err := qf.EnumView("e")
		if err != nil {
			c.Fail("enumview", "%s: %v", what, err)
			ok = false
			return
		}
		if v.Len() != len(wantCells) {
			c.Fail("cells:"+firstWord(what), "%s: %d cells, want %d", what, v.Len(), len(wantCells))
			ok = false
			return
		}
		for i, w := range wantCells {
			g := v.ItemAt(i)
			if (g == nil) != (w == nil) || (g != nil && *g != *w) {
				gs, ws := "null", "null"
				if g != nil {
					gs = fmt.Sprintf("%q", *g)
				}
				if w != nil {
					ws = fmt.Sprintf("%q", *w)
				}
				c.Fail("cells:"+firstWord(what), "%s: cell %d reported as %s, want %s", what, i, gs, ws)
				ok = false
				return
			}
		}
	})
	return ok && !c.Failed()
}

func runC17(c *fw.Case) {
	rng := c.Rng
	if c.No%3 == 2 {
		c17Derived(c, rng)
		return
	}
	// ---------------- declared enum
	n := 1 + rng.Intn(12)
	switch rng.Intn(8) {
	case 0:
		n = 255
	case 1:
		n = 254
	case 2:
		n = 60 + rng.Intn(195)
	case 3:
		n = 1
	}
	declared := enumValues(rng, n)
	rows := 1 + rng.Intn(300)
	withNull := rng.Intn(2) == 0
	cells := make([]*string, rows)
	ids := make([]int, rows)
	for i := range cells {
		ids[i] = 1000 + i
		if withNull && rng.Intn(6) == 0 {
			continue
		}
		cells[i] = model.StrP(declared[rng.Intn(n)])
		if rng.Intn(10) == 0 {
			cells[i] = model.StrP(declared[[]int{0, n - 1, n / 2}[rng.Intn(3)]])
		}
	}
	// ids: ascending, or smallest first / largest last with the ones in between shuffled
	endsFixed := rows >= 4 && rng.Intn(3) == 0
	if endsFixed {
		rng.Shuffle(rows-2, func(a, b int) { ids[1+a], ids[1+b] = ids[1+b], ids[1+a] })
	}
	if rng.Intn(10) == 0 {
		for i := range cells {
			cells[i] = cells[0]
		}
	}
	path := c17Paths[rng.Intn(len(c17Paths))]
	for !pathOK(path, cells, declared) {
		path = c17Paths[rng.Intn(len(c17Paths))]
	}
	var notes []string
	c.DescribeLazy(func() interface{} {
		return map[string]interface{}{"class": "declared", "declared_values": fmt.Sprintf("%q", trimList(declared)), "n_declared": n, "rows": rows, "nulls": withNull, "path": path, "checks": notes}
	})
	sorted := sort.StringsAreSorted(declared)
	if (n >= 2 && !sorted) || n >= 254 {
		c.Nontrivial("declared", fmt.Sprint(declared), path, rows)
	}
	c.Eval(1)
	c.Count("construct:"+path, 1)
	var qf qframe.QFrame
	if !c.GuardFail("construct", "construct via "+path, func() { qf = buildEnum(path, ids, cells, declared) }) {
		return
	}
	if !observeEnum(c, path+" (declared enum)", qf, cells) {
		return
	}
	// derive so that the physical order differs, then observe
	meta := model.Meta{"e": &model.Col{Name: "e", Kind: model.KEnum, EnumKnown: true, EnumVals: declared}, model.IDCol: &model.Col{Name: model.IDCol, Kind: model.KInt}}
	if path == "json" {
		meta[model.IDCol].Kind = model.KFloat
	}
	dq := qf
	if path != "json" {
		dq, _ = model.Derive(rng, qf, meta, rng.Intn(3), false)
		if endsFixed && rng.Intn(2) == 0 {
			// sorting on the id leaves the first and the last row where they are and permutes the rows in between
			dq = qf.Sort(qframe.Order{Column: model.IDCol})
			c.Count("frames_sorted_with_both_ends_fixed", 1)
		}
	}
	if rng.Intn(4) == 0 && dq.Len() > 0 {
		// the enum column as the key column of an aggregated frame (one row per distinct value, null included):
		// it is still the enum over the declared values
		var ag qframe.QFrame
		if c.GuardFail("aggregate", "GroupBy(e).Aggregate(min id)", func() {
			ag = dq.GroupBy(groupby.Columns("e"), groupby.Null(true)).Aggregate(qframe.Aggregation{Fn: "min", Column: model.IDCol})
		}) && ag.Err == nil {
			dq = ag
			path += "+GroupBy(e).Aggregate"
			c.Count("declared_enum_frames_produced_by_aggregate", 1)
		}
	}
	sh, err := model.ObserveGuard(dq)
	if err != nil {
		c.Fail("observe", "%v", err)
		return
	}
	meta.Apply(sh)
	kinds := sh.Kinds()
	ecol := sh.Col("e")
	// --- comparators against declared values
	consts := declared
	if n > 40 {
		consts = nil
		for _, r := range []int{0, 1, 62, 63, 64, 65, 126, 127, 128, 129, 190, 191, 192, 193, 253, 254} {
			if r < n {
				consts = append(consts, declared[r])
			}
		}
		for k := 0; k < 10; k++ {
			consts = append(consts, declared[rng.Intn(n)])
		}
	}
	filterCheck := func(cl *model.Clause) {
		c.Eval(1)
		var keep []int
		for r := 0; r < sh.Len(); r++ {
			if cl.Eval(sh, r) {
				keep = append(keep, r)
			}
		}
		want := sh.Take(keep)
		var res qframe.QFrame
		if !c.GuardFail("filter", cl.String(), func() { res = dq.Filter(cl.Real(kinds)) }) {
			return
		}
		if res.Err != nil {
			c.Fail("filter-err:"+cl.Cmp, "Filter(%s) on declared enum rejected: %v", cl.String(), res.Err)
			return
		}
		got, oerr := model.ObserveGuard(res)
		if oerr != nil {
			c.Fail("observe", "%v", oerr)
			return
		}
		if d := model.Diff(want, got); d != "" {
			c.Fail("filter-mismatch:"+cl.Cmp, "Filter(%s) on declared enum (%d values, built via %s): %s", cl.String(), n, path, d)
		}
	}
	for _, k := range consts {
		for _, cmp := range []string{"<", "<=", ">", ">=", "=", "!="} {
			if c.Failed() {
				return
			}
			filterCheck(&model.Clause{Op: "leaf", Col: "e", Cmp: cmp, ArgKind: "string", ArgS: k, Inverse: rng.Intn(8) == 0})
		}
	}
	notes = append(notes, fmt.Sprintf("%d constants x 6 comparators", len(consts)))
	// in-sets hitting the bitset word boundaries
	for k := 0; k < 4; k++ {
		var set []string
		for _, r := range []int{0, 63, 64, 127, 128, 191, 192, 254} {
			if r < n && rng.Intn(2) == 0 {
				set = append(set, declared[r])
			}
		}
		for j := rng.Intn(4); j > 0; j-- {
			set = append(set, declared[rng.Intn(n)])
		}
		if rng.Intn(3) == 0 {
			set = append(set, "not-a-declared-value")
		}
		if len(set) == 0 {
			set = []string{declared[n-1]}
		}
		filterCheck(&model.Clause{Op: "leaf", Col: "e", Cmp: "in", ArgKind: "strings", ListS: set, Iface: rng.Intn(2) == 0})
	}
	filterCheck(&model.Clause{Op: "leaf", Col: "e", Cmp: "like", ArgKind: "string", ArgS: "v0%"})
	filterCheck(&model.Clause{Op: "leaf", Col: "e", Cmp: "ilike", ArgKind: "string", ArgS: "%1"})
	filterCheck(&model.Clause{Op: "leaf", Col: "e", Cmp: "isnull", ArgKind: "none"})
	filterCheck(&model.Clause{Op: "leaf", Col: "e", Cmp: "isnotnull", ArgKind: "none"})
	if c.Failed() {
		return
	}
	// --- undeclared constants are an error for every comparator
	for _, cmp := range []string{"<", "<=", ">", ">=", "=", "!="} {
		c.Eval(1)
		c.Count("undeclared_constant_filters", 1)
		var res qframe.QFrame
		inv := rng.Intn(4) == 0
		desc := fmt.Sprintf("Filter{e %s \"not-a-declared-value\" inverse=%v}", cmp, inv)
		if !c.GuardFail("filter-undeclared", desc, func() {
			res = dq.Filter(qframe.Filter{Column: "e", Comparator: cmp, Arg: "not-a-declared-value", Inverse: inv})
		}) {
			continue
		}
		if res.Err == nil {
			c.Fail("undeclared-constant-accepted:"+cmp, "%s on a declared enum returned no Err (%d rows)", desc, res.Len())
		}
		// the same leaf in other positions of a clause: next to a leaf that already decides every row (all rows selected
		// in an Or, no row left in an And), negated, nested; and on an empty frame
		leaf := qframe.Filter{Column: "e", Comparator: cmp, Arg: "not-a-declared-value", Inverse: inv}
		allRows := qframe.Filter{Column: model.IDCol, Comparator: ">=", Arg: math.MinInt64}
		noRows := qframe.Filter{Column: model.IDCol, Comparator: "<", Arg: math.MinInt64}
		forms := []struct {
			name string
			cl   qframe.FilterClause
		}{
			{"Or(all rows, leaf)", qframe.Or(allRows, leaf)}, {"Or(no rows, leaf)", qframe.Or(noRows, leaf)}, {"Or(leaf, all rows)", qframe.Or(leaf, allRows)},
			{"And(no rows, leaf)", qframe.And(noRows, leaf)}, {"And(all rows, leaf)", qframe.And(allRows, leaf)}, {"And(leaf, no rows)", qframe.And(leaf, noRows)},
			{"Not(leaf)", qframe.Not(leaf)}, {"Or(all rows, And(no rows, leaf))", qframe.Or(allRows, qframe.And(noRows, leaf))}, {"Not(And(no rows, Or(all rows, leaf)))", qframe.Not(qframe.And(noRows, qframe.Or(allRows, leaf)))},
		}
		fm := forms[rng.Intn(len(forms))]
		for _, target := range []struct {
			name string
			qf   qframe.QFrame
		}{{"the frame", dq}, {"the frame sliced to no rows", dq.Slice(0, 0)}} {
			c.Eval(1)
			c.Count("undeclared_constant_filters_nested", 1)
			var r2 qframe.QFrame
			d2 := fmt.Sprintf("Filter(%s) with leaf %s on %s", fm.name, desc, target.name)
			if !c.GuardFail("filter-undeclared", d2, func() { r2 = target.qf.Filter(fm.cl) }) {
				continue
			}
			if r2.Err == nil {
				c.Fail("undeclared-constant-accepted:nested:"+cmp, "%s returned no Err (%d rows)", d2, r2.Len())
			}
		}
	}
	// --- deriving an upper-cased copy of the column leaves the column, its declared values and the caller's list as they were
	if rng.Intn(3) == 0 {
		declCopy := append([]string(nil), declared...)
		var up qframe.QFrame
		if c.GuardFail("apply-toupper", "Apply ToUpper e -> e_upper", func() {
			up = dq.Apply(qframe.Instruction{Fn: "ToUpper", DstCol: "e_upper", SrcCol1: "e"})
		}) && up.Err == nil {
			c.Eval(1)
			c.Count("source_checks_after_toupper", 1)
			if fmt.Sprintf("%q", declared) != fmt.Sprintf("%q", declCopy) {
				c.Fail("declared-list-changed", "the caller's list of declared values changed after Apply(ToUpper): %q, was %q", trimList(declared), trimList(declCopy))
				return
			}
			for _, fr := range []struct {
				name string
				qf   qframe.QFrame
			}{{"the source frame", dq}, {"the derived frame (source column e)", up.Select(sh.Names()...)}} {
				if got, oerr := model.ObserveGuard(fr.qf); oerr != nil {
					c.Fail("source-after-toupper", "%s cannot be observed after Apply(ToUpper): %v", fr.name, oerr)
					return
				} else if d := model.Diff(sh, got); d != "" {
					c.Fail("source-after-toupper", "%s changed after Apply(ToUpper): %s", fr.name, d)
					return
				}
				k := declared[rng.Intn(len(declared))]
				if r := fr.qf.Filter(qframe.Filter{Column: "e", Comparator: "<=", Arg: k}); r.Err != nil {
					c.Fail("source-after-toupper", "Filter{e <= %q} on %s after Apply(ToUpper) is rejected: %v", k, fr.name, r.Err)
					return
				}
				if r := fr.qf.Filter(qframe.Filter{Column: "e", Comparator: "=", Arg: "not-a-declared-value"}); r.Err == nil {
					c.Fail("undeclared-constant-accepted:after-toupper", "Filter{e = \"not-a-declared-value\"} on %s after Apply(ToUpper) returned no Err", fr.name)
					return
				}
			}
		}
	}
	// --- sort follows declared order
	root := &model.Root{Shadow: sh, QF: dq, Path: path, Shape: model.IndexShape(dq)}
	for _, rev := range []bool{false, true} {
		for _, nl := range []bool{false, true} {
			checkSort(c, root, []qframe.Order{{Column: "e", Reverse: rev, NullLast: nl}}, "enum")
		}
	}
	_ = ecol
	// --- construction with one undeclared value must fail on every path
	bad := make([]*string, rows)
	copy(bad, cells)
	pos := rng.Intn(rows)
	undeclared := "UNDECLARED"
	if rng.Intn(3) == 0 {
		undeclared = strings.ToUpper(declared[0]) + "x"
	}
	if rng.Intn(3) == 0 && model.EnumRank(&model.Col{Kind: model.KEnum, EnumKnown: true, EnumVals: declared}, "") < 0 && !withNull {
		// the undeclared value is the empty string in the very first row
		undeclared, pos = "", 0
	}
	bad[pos] = model.StrP(undeclared)
	for _, p := range c17Paths {
		b := bad
		if p == "new-const" {
			b = make([]*string, rows)
			for i := range b {
				b[i] = model.StrP(undeclared)
			}
		}
		if !pathOK(p, b, declared) {
			continue
		}
		c.Eval(1)
		c.Count("undeclared_value_constructions:"+p, 1)
		c.Nontrivial("undeclared-data", p, fmt.Sprint(declared), pos)
		var r qframe.QFrame
		if !c.GuardFail("construct-undeclared:"+p, "construct with undeclared value via "+p, func() { r = buildEnum(p, ids, b, declared) }) {
			continue
		}
		if r.Err == nil {
			c.Fail("undeclared-value-accepted:"+p, "construction via %s accepted the undeclared value %q at row %d (declared: %q)", p, undeclared, pos, trimList(declared))
		}
	}
	// --- more than 255 declared values
	if c.No%7 == 0 {
		c.Eval(1)
		big := enumValues(rng, 256+rng.Intn(50))
		var r qframe.QFrame
		if c.GuardFail("construct-256", "New with 256+ declared values", func() { r = buildEnum("new-ptr", ids, cells[:0:0], big) }) {
			_ = r
		}
		rr := buildEnumGuard(c, "new-ptr", ids[:1], []*string{model.StrP(big[0])}, big)
		if rr != nil && rr.Err == nil {
			c.Fail("too-many-declared-accepted", "New accepted %d declared enum values", len(big))
		}
	}
}

func buildEnumGuard(c *fw.Case, path string, ids []int, cells []*string, declared []string) *qframe.QFrame {
	var r qframe.QFrame
	if !c.GuardFail("construct:"+path, "construct via "+path, func() { r = buildEnum(path, ids, cells, declared) }) {
		return nil
	}
	return &r
}

func trimList(v []string) []string {
	if len(v) > 12 {
		return append(append([]string{}, v[:12]...), fmt.Sprintf("… (%d values)", len(v)))
	}
	return v
}

func c17Derived(c *fw.Case, rng *rand.Rand) {
	card := rng.Intn(301)
	switch rng.Intn(6) {
	case 0:
		card = 254
	case 1:
		card = 255
	case 2:
		card = 256
	case 3:
		card = rng.Intn(6)
	}
	vals := enumValues(rng, card)
	rows := card + rng.Intn(100)
	if card == 0 {
		rows = rng.Intn(5)
	}
	withNull := rng.Intn(2) == 0 || card == 0
	cells := make([]*string, rows)
	ids := make([]int, rows)
	perm := rng.Perm(rows)
	for i := range cells {
		ids[i] = 5000 + i
	}
	// every value at least once, remaining rows random / null
	for k, p := range perm {
		switch {
		case k < card:
			cells[p] = model.StrP(vals[k])
		case withNull && rng.Intn(3) == 0:
		case card > 0:
			cells[p] = model.StrP(vals[rng.Intn(card)])
		}
	}
	if card > 0 && !withNull && rng.Intn(3) == 0 {
		// empty strings in the first rows (they are a value like any other when nulls are not involved)
		hasEmpty := false
		for _, v := range vals {
			hasEmpty = hasEmpty || v == ""
		}
		if hasEmpty || card < 255 {
			if !hasEmpty {
				vals = append(vals, "")
				card++
			}
			for i := 0; i < 1+rng.Intn(2) && i < rows; i++ {
				cells[i] = model.StrP("")
			}
			// make sure every value still occurs
			seen := map[string]bool{}
			for _, s := range cells {
				if s != nil {
					seen[*s] = true
				}
			}
			for _, v := range vals {
				if !seen[v] {
					cells = append(cells, model.StrP(v))
					ids = append(ids, 5000+len(ids))
					rows++
				}
			}
		}
	}
	path := c17Paths[rng.Intn(len(c17Paths))]
	for !pathOK(path, cells, nil) || path == "new-const" {
		path = c17Paths[rng.Intn(len(c17Paths))]
	}
	c.DescribeLazy(func() interface{} {
		return map[string]interface{}{"class": "derived", "cardinality": card, "rows": rows, "nulls": withNull, "path": path, "values": fmt.Sprintf("%q", trimList(vals))}
	})
	if card >= 254 {
		c.Nontrivial("derived", card, path, rows, fmt.Sprint(vals[:3]))
	}
	c.Eval(1)
	c.Count(fmt.Sprintf("derived_cardinality:%s", cardClass(card)), 1)
	r := buildEnumGuard(c, path, ids, cells, nil)
	if r == nil {
		return
	}
	if card > 255 {
		if r.Err == nil {
			c.Fail("derived-over-limit-accepted:"+path, "derived enum with %d distinct values accepted via %s", card, path)
		} else if r.Len() != -1 {
			c.Fail("errlen", "Err set but Len()=%d", r.Len())
		}
		return
	}
	if !observeEnum(c, path+fmt.Sprintf(" (derived enum, %d distinct values)", card), *r, cells) {
		return
	}
	// null is distinct from every value, in particular from "" and "null"
	sh, err := model.ObserveGuard(*r)
	if err != nil {
		return
	}
	meta := model.Meta{"e": &model.Col{Name: "e", Kind: model.KEnum, EnumKnown: true}}
	meta.Apply(sh)
	kinds := sh.Kinds()
	probe := []string{"", "null", "no-such-value"}
	if card > 0 {
		probe = append(probe, vals[0], vals[card-1], vals[card/2])
	}
	for _, k := range probe {
		for _, cmp := range []string{"=", "!="} {
			cl := &model.Clause{Op: "leaf", Col: "e", Cmp: cmp, ArgKind: "string", ArgS: k}
			c.Eval(1)
			var keep []int
			for row := 0; row < sh.Len(); row++ {
				if cl.Eval(sh, row) {
					keep = append(keep, row)
				}
			}
			var res qframe.QFrame
			if !c.GuardFail("filter", cl.String(), func() { res = r.Filter(cl.Real(kinds)) }) {
				return
			}
			if res.Err != nil {
				c.Fail("filter-err:derived", "Filter(%s) on derived enum rejected: %v", cl.String(), res.Err)
				return
			}
			got, oerr := model.ObserveGuard(res)
			if oerr != nil {
				return
			}
			if d := model.Diff(sh.Take(keep), got); d != "" {
				c.Fail("filter-mismatch:derived:"+cmp, "Filter(%s) on derived enum with %d values: %s", cl.String(), card, d)
				return
			}
		}
	}
}

func cardClass(n int) string {
	switch {
	case n == 0:
		return "0"
	case n < 254:
		return "1-253"
	case n == 254:
		return "254"
	case n == 255:
		return "255"
	case n == 256:
		return "256"
	}
	return ">256"
}
