// Command qverif is the driver and worker of the qframe runtime monitors.
package main

import (
	"flag"
	"fmt"
	"os"
	"strconv"

	"qverif/fw"
	_ "qverif/props"
)

func seedFromEnv() int64 {
	if s := os.Getenv("VERIF_SEED"); s != "" {
		if v, err := strconv.ParseInt(s, 10, 64); err == nil {
			return v
		}
	}
	return 1
}

func main() {
	if len(os.Args) < 2 {
		fmt.Println("usage: qverif run <ID> <tier> | worker ... | replay <file> | list")
		os.Exit(2)
	}
	switch os.Args[1] {
	case "list":
		for _, id := range fw.IDs() {
			fmt.Println(id)
		}
	case "run":
		if len(os.Args) < 4 {
			fmt.Println("usage: qverif run <ID> <tier>")
			os.Exit(2)
		}
		p := fw.Lookup(os.Args[2])
		if p == nil {
			fmt.Printf("INCONCLUSIVE property=%s reason=unknown property\n", os.Args[2])
			os.Exit(2)
		}
		tier := os.Args[3]
		if tier != "quick" && tier != "thorough" {
			fmt.Printf("unknown tier %q\n", tier)
			os.Exit(2)
		}
		os.Exit(fw.RunDriver(p, tier, seedFromEnv()))
	case "worker":
		fs := flag.NewFlagSet("worker", flag.ExitOnError)
		prop := fs.String("prop", "", "")
		tier := fs.String("tier", "quick", "")
		seed := fs.Int64("seed", 1, "")
		stage := fs.Int("stage", 0, "")
		from := fs.Int("from", 0, "")
		to := fs.Int("to", 0, "")
		out := fs.String("out", "", "")
		logp := fs.String("log", "", "")
		_ = fs.Parse(os.Args[2:])
		p := fw.Lookup(*prop)
		if p == nil {
			fmt.Println("unknown property")
			os.Exit(2)
		}
		name := ""
		if st := p.Stages(*tier); *stage < len(st) {
			name = st[*stage].Name
		}
		fw.RunWorker(p, *tier, *seed, *stage, name, *from, *to, *out, *logp)
	case "replay":
		if len(os.Args) < 3 {
			fmt.Println("usage: qverif replay <file>")
			os.Exit(2)
		}
		os.Exit(fw.RunReplay(os.Args[2]))
	default:
		fmt.Println("unknown command")
		os.Exit(2)
	}
}
