#!/bin/bash
# Entry point registered in MANIFEST.json.
#   ./run.sh <ID> <quick|thorough>   run the monitor of one property (rebuilds the harness against /repo's working tree)
#   ./run.sh --replay <file>         re-run the case named by a replay file
#   ./run.sh --setup                 warm the build cache
set -u
VERIF_DIR="$(cd "$(dirname "${BASH_SOURCE[0]}")" && pwd)"
export QV_VERIF_DIR="$VERIF_DIR"
export GOFLAGS=-mod=mod GOPROXY=off GOSUMDB=off GOTOOLCHAIN=local CGO_ENABLED=1
REPO=${QV_REPO:-/repo}

WORK=$(mktemp -d /var/tmp/qverif.XXXXXX) || { echo "INCONCLUSIVE reason=mktemp failed"; exit 2; }
trap 'rm -rf "$WORK"' EXIT
export QV_WORK="$WORK/run"
mkdir -p "$QV_WORK" "$WORK/bin"

# copy of the harness sources so that nothing is written into /verif while building
cp -r "$VERIF_DIR/harness" "$WORK/harness"
cp "$REPO/go.sum" "$WORK/harness/go.sum" 2>/dev/null
if [ "$REPO" != "/repo" ]; then
  sed -i "s#=> /repo#=> $REPO#" "$WORK/harness/go.mod"
fi

build() { # flavour tags extra-flags...
  local fl=$1 tags=$2; shift 2
  (cd "$WORK/harness" && go build -tags "$tags" "$@" -o "$WORK/bin/qverif-$fl" ./cmd/qverif) >"$WORK/build-$fl.log" 2>&1
}

build_all() { # needs: list of flavours
  local hooks=available
  if ! build ptr verif -gcflags=all=-d=checkptr; then
    # the hooks inside /repo may no longer compile after an edit: fall back to the API-only harness
    cp "$WORK/build-ptr.log" "$WORK/build-ptr-hooks.log"
    hooks=unavailable
    if ! build ptr nohooks -gcflags=all=-d=checkptr; then
      echo "build of the harness against $REPO failed:"; tail -30 "$WORK/build-ptr.log"
      return 1
    fi
  fi
  local tags=verif; [ $hooks = unavailable ] && tags=nohooks
  export QV_HOOKS=$hooks QV_BIN_ptr="$WORK/bin/qverif-ptr"
  for fl in "$@"; do
    case $fl in
      race) build race $tags -race && export QV_BIN_race="$WORK/bin/qverif-race" || { echo "race build failed"; tail -20 "$WORK/build-race.log"; } ;;
      asan) build asan $tags -asan && export QV_BIN_asan="$WORK/bin/qverif-asan" || { echo "asan build failed"; tail -20 "$WORK/build-asan.log"; } ;;
    esac
  done
  return 0
}

flavours_for() { # ID tier
  local id=$1 tier=$2
  if [ "$id" = C11 ]; then echo race; return; fi
  if [ "$tier" = thorough ]; then
    case $id in
      C01|C02|C03|C06|C07) echo race ;;
      C04|C05|C12) echo race asan ;;
      C16|C18) echo asan ;;
    esac
  fi
}

case "${1:-}" in
  --setup)
    build_all race asan || exit 1
    "$WORK/bin/qverif-ptr" list >/dev/null || exit 1
    echo "setup ok (hooks=$QV_HOOKS)"
    exit 0 ;;
  --replay)
    [ -n "${2:-}" ] || { echo "usage: run.sh --replay <file>"; exit 2; }
    build_all race asan || { echo "INCONCLUSIVE reason=build failed"; exit 2; }
    "$WORK/bin/qverif-ptr" replay "$2"
    exit $? ;;
  "")
    echo "usage: run.sh <ID> <quick|thorough> | --replay <file> | --setup"; exit 2 ;;
esac

ID=$1
TIER=${2:-${VERIF_TIER:-quick}}
if ! build_all $(flavours_for "$ID" "$TIER"); then
  echo "INCONCLUSIVE property=$ID reason=harness does not build against the current tree"
  exit 2
fi
"$WORK/bin/qverif-ptr" run "$ID" "$TIER"
exit $?
