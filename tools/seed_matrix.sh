#!/bin/bash
# usage: seed_matrix.sh [tier] [name ...]
# Runs each seeded change (seeded/<name>/patch.diff) against the check of the property it breaks and records the
# outcome in meta.json. The change is applied to a scratch worktree of /repo HEAD (QV_REPO), never to /repo itself,
# and evidence/replays of these runs go to a scratch directory, so neither /repo nor /verif/evidence is disturbed.
set -u
tier=${1:-quick}; shift || true
names=("$@"); [ ${#names[@]} -eq 0 ] && names=($(cd /verif/seeded && for d in */; do [ -f "$d/meta.json" ] && echo "${d%/}"; done))
wt=/tmp/wt-seedmatrix.$$
out=/tmp/seedmatrix-out.$$
git -C /repo worktree add -q --detach "$wt" HEAD || exit 2
trap 'git -C /repo worktree remove --force "$wt" 2>/dev/null; rm -rf "$out"' EXIT
for name in "${names[@]}"; do
  d=/verif/seeded/$name
  id=$(python3 -c "import json;print(json.load(open('$d/meta.json'))['breaks_property'])")
  git -C "$wt" checkout -q -- . && git -C "$wt" clean -fdq
  if ! git -C "$wt" apply "$d/patch.diff" 2>/tmp/apply.err; then echo "$name: patch does not apply to /repo HEAD"; continue; fi
  outtxt=$(cd /verif && QV_REPO="$wt" QV_OUT_DIR="$out" ./run.sh $id $tier 2>&1)
  rc=$?
  keys=$(echo "$outtxt" | grep -oE "key=[^ ]+" | sort -u | head -5 | tr '\n' ' ')
  echo "$name $id $tier exit=$rc $keys"
  python3 - "$d/meta.json" "$id" "$tier" "$rc" "$keys" "$(git -C /repo rev-parse --short HEAD)" <<'PY'
import json,sys
p,id,tier,rc,keys,head=sys.argv[1:]
m=json.load(open(p))
m.setdefault("detected_by",{})[f"{id} {tier}"]={"exit":int(rc),"detected":rc=="1","violation_keys":keys.split(),"repo_head":head}
json.dump(m,open(p,"w"),indent=1)
PY
done
