#!/bin/bash
# usage: seed_matrix.sh [tier] [name ...]   -- run each seeded change against the check of the property it breaks; records the outcome in meta.json
set -u
tier=${1:-quick}; shift || true
names=("$@"); [ ${#names[@]} -eq 0 ] && names=($(ls /verif/seeded))
for name in "${names[@]}"; do
  d=/verif/seeded/$name
  id=$(python3 -c "import json;print(json.load(open('$d/meta.json'))['breaks_property'])")
  cd /repo
  if ! git diff --quiet; then echo "/repo dirty"; exit 2; fi
  if ! git apply "$d/patch.diff" 2>/tmp/apply.err; then echo "$name: patch does not apply to /repo HEAD"; continue; fi
  out=$(cd /verif && QV_VERIF_DIR_EVID=skip ./run.sh $id $tier 2>&1)
  rc=$?
  git -C /repo checkout -- . && git -C /repo clean -fdq
  keys=$(echo "$out" | grep -oE "key=[^ ]+" | sort -u | head -5 | tr '\n' ' ')
  echo "$name $id $tier exit=$rc $keys"
  python3 - "$d/meta.json" "$id" "$tier" "$rc" "$keys" "$(git -C /repo rev-parse --short HEAD)" <<'PY'
import json,sys
p,id,tier,rc,keys,head=sys.argv[1:]
m=json.load(open(p))
m.setdefault("detected_by",{})[f"{id} {tier}"]={"exit":int(rc),"detected":rc=="1","violation_keys":keys.split(),"repo_head":head}
json.dump(m,open(p,"w"),indent=1)
PY
done
# the runs above rewrote evidence files with violating runs: restore the committed ones
git -C /verif checkout -- evidence 2>/dev/null
