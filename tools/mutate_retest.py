#!/usr/bin/env python3
"""Re-runs the survivors of a mutation sweep (results.jsonl of tools/mutate.py) against the current checks.
usage: mutate_retest.py <results.jsonl> <out-dir> [substring filter on 'file:line']"""
import json, os, subprocess, sys, re
sys.path.insert(0, os.path.dirname(__file__))
from mutate import FILES, sh
res, out = sys.argv[1], sys.argv[2]
flt = sys.argv[3] if len(sys.argv) > 3 else ""
os.makedirs(out, exist_ok=True)
wt = os.path.join(out, "wt")
sh(f"git -C /repo worktree remove --force {wt}", "/")
sh(f"git -C /repo worktree add -q --detach {wt} HEAD", "/")
try:
    for l in open(res):
        r = json.loads(l)
        if r["status"] != "survived" or flt not in f'{r["file"]}:{r["line"]}':
            continue
        path = os.path.join(wt, r["file"])
        text = open(path).read()
        lines = text.split("\n")
        cand = [i for i, ln in enumerate(lines) if ln.strip() == r["old"]]
        if not cand:
            print("source changed, skipped:", r["file"], r["line"]); continue
        i = min(cand, key=lambda k: abs(k - (r["line"] - 1)))
        indent = lines[i][: len(lines[i]) - len(lines[i].lstrip())]
        lines[i] = indent + r["new"]
        open(path, "w").write("\n".join(lines))
        status = "survived"
        rc, o = sh("go build ./...", wt, 300)
        if rc != 0:
            status = "no-compile"
        else:
            for cid in FILES[r["file"]]:
                rc, o = sh(f"QV_REPO={wt} QV_OUT_DIR={out}/o ./run.sh {cid} quick", "/verif", 1200)
                if rc == 1:
                    status = "caught by " + cid + " " + " ".join(sorted(set(re.findall(r"key=(\S+)", o)))[:2]); break
        open(path, "w").write(text)
        print(status, "|", r["file"], r["line"], "|", r["old"][:60], "=>", r["new"][:60], flush=True)
finally:
    sh(f"git -C /repo worktree remove --force {wt}", "/")
