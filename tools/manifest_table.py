# Table of claimed checks; exec'd by gen_manifest.py
T = "runtime monitoring: "
check("C01", "exploration", T + "history monitor: every member of a growing family of frames/groupers/views/handed-out strings is re-observed against its creation-time snapshot after every operation; alias canaries; structural-invariant hook; checkptr build, race stage in thorough",
      "Held on every history explored: no operation changed the observation (Err, Len, names, order, types, every cell) of any earlier frame, grouper, view or string, including under input-scribbling callbacks and scribbled result slices.",
      "Trusted: observation through typed views (C09); the sharing statistics come from the verif hook; histories are sampled from an unbounded space.", "DESIGN.md §2 C01")
check("C02", "exploration", T + "reference-model oracle (clause evaluator over shadow rows) at the public API on derived frames, plus equivalent clause rewrites; checkptr build, race stage in thorough",
      "Held on every Filter call explored: generated clause trees over the full comparator x argument-kind table on frames with arbitrary physical index, each compared row by row with a reference evaluator written from the statement. A sample of an unbounded program space, not a proof.",
      "Trusted: the shadow evaluator (harness/model/clause.go), observation through typed views (cross-checked by C09), Go runtime/compiler.", "DESIGN.md §2 C02")
check("C03", "exploration", T + "result checker (permutation, whole rows, consecutive pairs under the stated comparator) incl. McIlroy-antiquicksort adversarial inputs; sorter regime counters via verif hook",
      "Held on every Sort explored, including inputs constructed to drive the copied quicksort into its heapsort fallback (counted by the hook) and all Reverse x NullLast modes on all key types.",
      "Trusted: the comparator in harness/model/ref.go; typed views; the replica sorter is only an input generator, never an oracle.", "DESIGN.md §2 C03")
check("C04", "exploration", T + "reference partition oracle + recording user aggregation functions observing the exact inputs of every aggregation; run-time constructed 32-bit hash collisions via row-hash hook",
      "Held on every GroupBy/QFrames/Aggregate explored across key types, Null settings, table growth steps and natural plus constructed full-hash collisions.",
      "Trusted: model.Partition/KeyString; typed views; built-in float aggregations compared only on exact dyadic data.", "DESIGN.md §2 C04")
check("C05", "exploration", T + "checker over the reference partition: result rows are unmodified input rows, one per key class",
      "Held on every Distinct explored (same key material and collision frames as C04, with and without a unique id column).",
      "Trusted: model.Partition; typed views.", "DESIGN.md §2 C05")
check("C06", "exploration", T + "shadow model executes the same instruction program row by row; user functions record call counts and argument hashes; known-behaviour model separates the recorded finding from any other deviation",
      "Held on every Apply/FilteredApply/WithRowNums execution explored except the recorded finding (column copies and enum ToUpper ignore the FilteredApply filter), on frames with arbitrary physical index incl. frames produced by Aggregate.",
      "Trusted: the shadow executor in props/c06.go; clause semantics of C02; typed views.", "DESIGN.md §2 C06")
check("C07", "exploration", T + "typed reference evaluator over shadow rows for generated expression trees; constructed known-invalid expressions must give Err; context-independence probes",
      "Held on every Eval explored: value, schema, no surviving temporaries, errors for invalid expressions, independence of evaluation contexts.",
      "Trusted: the reference evaluator and function table in props/c07.go; typed views.", "DESIGN.md §2 C07")
check("C08", "exploration", T + "constructive validity oracle: valid column maps must be reproduced, each single named corruption must be rejected; shadow projection for Select/Drop/Slice/Copy with exhaustive Slice bounds on small frames",
      "Held on every New input and projection request explored; Slice bounds exhaustive over [-1,n+1]^2 for frames of at most 12 rows.",
      "Trusted: the corruption generator's knowledge of validity (taken from the statement); typed views.", "DESIGN.md §2 C08")
check("C09", "exploration", T + "cross-channel monitor (Len, ItemAt, Slice, ToCSV via encoding/csv, ToJSON via encoding/json tokens, String layout) and Equals verdict checks (reflexive/symmetric/transitive, single-difference negatives, shared-storage pairs, same-operation-on-rebuild)",
      "Held on every derived frame explored: all observation channels agree and Equals coincides with cell-wise equality of the observations.",
      "Trusted: encoding/csv and encoding/json as independent parsers; the String layout re-computation in props/c09.go.", "DESIGN.md §2 C09")
check("C10", "exploration", T + "panic guard + error-state monitor over a type-product fuzz of every interface{} position, constructed single-fault misuse, and continuation of every error frame through every chainable operation with counting callbacks",
      "Held on every call explored: no panic outside the documented ones, Err implies Len()==-1, constructed misuse gives Err, errors stay, callbacks do not run after an error, writers refuse error frames.",
      "Trusted: the harness' classification of constructed misuse as invalid (taken from the statement's list).", "DESIGN.md §2 C10")
check("C11", "exploration", T + "Go race detector (all workers are -race builds, reports parsed from the race log and de-duplicated by entry-point pair) + comparison of concurrent results with sequential ones over the full operation-pair matrix, four sharing relations, four root kinds, random storms",
      "Held on every concurrent execution explored: no race report involving qframe code and every concurrent result equal to the sequential one. The race detector is happens-before based, so executed pairs are judged independently of timing; unexecuted paths and unexplored interleavings of results are not.",
      "Trusted: the Go race detector's completeness for executed code (bounded shadow history); harness callbacks are race free.", "DESIGN.md §2 C11")
check("C12", "exploration", T + "document generator with known denotation x read-schedule enumeration (whole, bytewise, every single split, every split pair for short documents, structural splits, random chunks, EOF with/after data) through a fragmenting io.Reader with a step bound",
      "Held on every (document, configuration, schedule) explored; single and double split points are enumerated exhaustively for short documents (counts in the evidence).",
      "Trusted: the document serialiser/denotation in props/c12.go; strconv for what parses as int/float/bool.", "DESIGN.md §2 C12")
check("C13", "exploration", T + "round-trip oracle: ToCSV output read back by ReadCSV with declared types compared cell by cell (floats by bit pattern) for both EmptyNull settings and all writer options",
      "Held on every round trip explored over hostile strings (no CR), floats incl. +-Inf/-0/subnormals, nulls, single-column and zero-row frames.",
      "Trusted: typed views; the stated null<->\"\" rules.", "DESIGN.md §2 C13")
check("C14", "exploration", T + "independent-parser oracle: json.Valid + token-level decoding of ToJSON output against the cells; ReadJSON(ToJSON(f)) inversion",
      "Held on every frame explored with hostile names and cells (all byte values, controls, quotes, backslashes, U+2028/9, malformed UTF-8), finite floats and NaN, empty and large frames.",
      "Trusted: encoding/json; per-byte U+FFFD replacement as the decoding of invalid bytes.", "DESIGN.md §2 C14")
check("C15", "fault_enumeration", T + "fault injection at the io.Reader / io.Writer / database/sql driver boundary with every fault position enumerated per input (byte offsets x chunkings, rows, statement numbers)",
      "Held for every (input, fault position) enumerated: no panic; a read either reports an error or equals the fault-free result; a write either reports an error or was accepted completely. Positions are exhaustive per input (every byte offset x four chunkings, every row, every statement number) for all inputs except the rare CSV documents with more than 1000 rows, which get faults on and around every row boundary from row 980 on plus random offsets; inputs are sampled.",
      "Trusted: the in-memory driver (harness/memsql) and the fault-injecting reader/writer in props/c15.go.", "DESIGN.md §2 C15")
check("C16", "exploration", T + "differential monitor against strconv.AppendFloat('f',-1,64) through the formatter hook (five destination buffer states) and through ToJSON; structured value classes + bijectively mixed counters",
      "Held on every float explored (every binary exponent, powers of ten/two with neighbours, halfway decimals, hard cases, subnormals, millions to billions of distinct random bit patterns). A sample of 2^64 inputs.",
      "Trusted: strconv as reference; the hook gives direct access to the formatter ToJSON uses.", "DESIGN.md §2 C16")
check("C17", "exploration", T + "rank-based reference for every comparator against every declared value, in/like sets at bitset word boundaries, Sort modes; constructive rejection checks through New/ReadCSV/ReadJSON; derived cardinalities around the 255 limit",
      "Held on every enum construction, filter and sort explored.",
      "Trusted: the rank reference (model.EnumRank); typed views.", "DESIGN.md §2 C17")
check("C18", "exploration", T + "rule-based reference matcher (written from the statement) applied to a string and an enum column with identical cells in one Filter call each, so that the matcher's scratch buffer is reused across cells",
      "Held on every (pattern, comparator, column) explored over special-casing alphabets, C1 controls, long cells, % placements, regular expressions and invalid expressions.",
      "Trusted: strings.ToUpper / regexp as the meaning of 'Unicode upper-casing' and 'Go regular expression'.", "DESIGN.md §2 C18")
check("C19", "exploration", T + "recording in-memory database/sql driver: offline check of the statement/argument event log against the shadow rows, write-then-read round trip, generated result sets with NULL runs and coercions",
      "Held on every ToSQL event log, round trip and ReadSQL result explored, for every dialect option.",
      "Trusted: harness/memsql; database/sql's argument conversion.", "DESIGN.md §2 C19")
