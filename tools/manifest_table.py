# Table of claimed checks; exec'd by gen_manifest.py
T = "runtime monitoring: "
check("C02", "exploration", T + "reference-model oracle (clause evaluator over shadow rows) at the public API on derived frames, checkptr build; race-detector stage in thorough",
      "Held on every Filter call explored: generated clause trees over the full comparator x argument-kind table on frames with arbitrary physical index, each compared row by row with a reference evaluator written from the statement. A sample of an unbounded program space, not a proof.",
      "Trusted: the shadow evaluator (harness/model/clause.go), observation through typed views (cross-checked by C09), Go runtime/compiler.", "DESIGN.md §2 C02")
check("C03", "exploration", T + "result checker (permutation, whole rows, consecutive pairs under the stated comparator) incl. McIlroy-antiquicksort adversarial inputs; sorter regime counters via verif hook",
      "Held on every Sort explored, including inputs constructed to drive the copied quicksort into its heapsort fallback (counted by the hook) and all Reverse x NullLast modes on all key types.",
      "Trusted: the comparator in harness/model/ref.go; typed views; the replica sorter is only an input generator, never an oracle.", "DESIGN.md §2 C03")
check("C04", "exploration", T + "reference partition oracle + recording user aggregation functions observing the exact inputs of every aggregation; run-time constructed 32-bit hash collisions via row-hash hook",
      "Held on every GroupBy/QFrames/Aggregate explored across key types, Null settings, table growth steps and natural plus constructed full-hash collisions.",
      "Trusted: model.Partition/KeyString; typed views; built-in float aggregations compared only on exact dyadic data.", "DESIGN.md §2 C04")
check("C05", "exploration", T + "checker over the reference partition: result rows are unmodified input rows, one per key class",
      "Held on every Distinct explored (same key material and collision frames as C04, with and without a unique id column).",
      "Trusted: model.Partition; typed views.", "DESIGN.md §2 C05")
check("C08", "exploration", T + "constructive validity oracle: valid column maps must be reproduced, each single named corruption must be rejected; shadow projection for Select/Drop/Slice/Copy with exhaustive Slice bounds on small frames",
      "Held on every New input and projection request explored; Slice bounds exhaustive over [-1,n+1]^2 for frames of at most 12 rows.",
      "Trusted: the corruption generator's knowledge of validity (taken from the statement); typed views.", "DESIGN.md §2 C08")
