#!/usr/bin/env python3
"""Systematic first-order mutants of the anchored source files, as a third validation of the monitors.

For every sampled mutant (one token changed on one line of a non-test, non-verif .go file):
  1. apply it to a scratch worktree of /repo HEAD, `go build ./...`           (else: does not compile, skipped)
  2. run the repository's own tests for the root package and internal/...      (else: killed by the existing suite, skipped)
  3. run the quick checks mapped to that file against the worktree (QV_REPO)   -> caught / survived
Results are appended to <out>/results.jsonl; survivors are the interesting ones (equivalent mutant or hole).

usage: mutate.py <out-dir> [--per-file N] [--seed S] [--files f1,f2,...]
"""
import json, os, random, re, subprocess, sys, hashlib

ENV = dict(os.environ, GOFLAGS="-mod=mod", GOPROXY="off", GOSUMDB="off", GOTOOLCHAIN="local")

FILES = {
    "filter.go": ["C02", "C10"],
    "grouper.go": ["C04", "C06", "C01"],
    "expression.go": ["C07", "C10"],
    "qframe.go": ["C08", "C09", "C06", "C02", "C05", "C13", "C14", "C19", "C10", "C07", "C01"],
    "internal/index/index.go": ["C02", "C01"],
    "internal/sort/sorter.go": ["C03"],
    "internal/grouper/grouper.go": ["C04", "C05"],
    "internal/icolumn/column.go": ["C02", "C10", "C03", "C04", "C09", "C13"],
    "internal/icolumn/filters.go": ["C02"],
    "internal/icolumn/filters_gen.go": ["C02"],
    "internal/icolumn/aggregations.go": ["C04"],
    "internal/icolumn/column_gen.go": ["C06", "C04", "C09", "C03", "C01"],
    "internal/fcolumn/column.go": ["C02", "C10", "C03", "C04", "C09", "C13", "C14"],
    "internal/fcolumn/filters.go": ["C02"],
    "internal/fcolumn/filters_gen.go": ["C02"],
    "internal/fcolumn/aggregations.go": ["C04"],
    "internal/fcolumn/column_gen.go": ["C06", "C04", "C09", "C03"],
    "internal/bcolumn/column.go": ["C02", "C10", "C03", "C04", "C09", "C13"],
    "internal/bcolumn/filters_gen.go": ["C02"],
    "internal/bcolumn/aggregations.go": ["C04"],
    "internal/bcolumn/column_gen.go": ["C06", "C04", "C09", "C03"],
    "internal/scolumn/column.go": ["C02", "C10", "C03", "C04", "C06", "C09", "C13", "C14", "C01"],
    "internal/scolumn/filters.go": ["C02", "C18"],
    "internal/scolumn/filters_gen.go": ["C02"],
    "internal/scolumn/view.go": ["C09", "C01"],
    "internal/ecolumn/column.go": ["C17", "C02", "C10", "C03", "C04", "C06", "C09", "C13"],
    "internal/ecolumn/filters.go": ["C17", "C02", "C18"],
    "internal/ecolumn/filters_gen.go": ["C17", "C02"],
    "internal/ecolumn/bitset.go": ["C17", "C18"],
    "internal/ecolumn/view.go": ["C09", "C17"],
    "internal/strings/convert.go": ["C18", "C06", "C12"],
    "internal/strings/match.go": ["C18"],
    "internal/strings/serialize.go": ["C14"],
    "internal/strings/name.go": ["C08"],
    "internal/strings/pointer.go": ["C09", "C13", "C02"],
    "internal/fastcsv/csv.go": ["C12", "C15", "C13"],
    "internal/io/csv.go": ["C12", "C13", "C15", "C17"],
    "internal/io/json.go": ["C14", "C17"],
    "internal/io/sql/reader.go": ["C19", "C15"],
    "internal/io/sql/column.go": ["C19"],
    "internal/io/sql/stmt.go": ["C19"],
    "internal/io/sql/types.go": ["C19"],
    "internal/io/sql/coerce.go": ["C19"],
    "internal/ryu/ryu64.go": ["C16"],
    "internal/ryu/ryu.go": ["C16"],
    "config/eval/context.go": ["C07"],
    "internal/math/float/float.go": ["C19"],
    "internal/hash/memhash.go": ["C04", "C05"],
    # second tier: configuration, built-in functions, views, helpers
    "qframe_gen.go": ["C09", "C01", "C10"],
    "filter/filter.go": ["C02", "C10"],
    "function/int.go": ["C07", "C06"],
    "function/float.go": ["C07", "C06"],
    "function/bool.go": ["C07", "C06"],
    "function/string.go": ["C07", "C06"],
    "aggregation/strings.go": ["C04"],
    "config/csv/config.go": ["C12", "C13", "C15", "C17"],
    "config/sql/config.go": ["C19"],
    "config/groupby/config.go": ["C04", "C05"],
    "config/newqf/config.go": ["C08", "C17", "C09"],
    "config/rolling/config.go": ["C10"],
    "config/eval/config.go": ["C07"],
    "internal/ncolumn/column.go": ["C10", "C09", "C12"],
    "internal/strings/set.go": ["C02", "C08", "C10"],
    "internal/math/integer/int.go": ["C07", "C04"],
    "internal/maps/maps.go": ["C17", "C12", "C14"],
    "qerrors/error.go": ["C10"],
    "types/types.go": ["C12", "C14", "C10"],
}

OPS = [
    (r"<=", ["<"]), (r">=", [">"]), (r"(?<![<\-=!>])<(?![<=\-])", ["<="]), (r"(?<![>\-=!<])>(?![>=])", [">="]),
    (r"==", ["!="]), (r"!=", ["=="]), (r"&&", ["||"]), (r"\|\|", ["&&"]),
    (r"\+ 1\b", ["+ 0", "- 1"]), (r"- 1\b", ["- 0", "+ 1"]), (r"\+\+", ["--"]),
    (r"\[index\[i\]\]", ["[i]"]), (r"\[ix\[i\]\]", ["[i]"]), (r"\[pos\]", ["[i]"]), (r"qf\.index\[i\]", ["uint32(i)"]),
    (r"\btrue\b", ["false"]), (r"\bfalse\b", ["true"]),
    (r"\b0\b", ["1"]), (r"\b1\b", ["0", "2"]), (r"\b255\b", ["254", "256"]), (r"\b1024\b", ["1023"]), (r"\b12\b", ["11"]), (r"\b40\b", ["41"]),
    (r"!(\w)", [r"\1"]), (r"\.Copy\(\)", [""]), (r"\bcontinue\b", ["break"]),
]


def sh(cmd, cwd, timeout=900):
    try:
        p = subprocess.run(cmd, cwd=cwd, env=ENV, shell=True, stdout=subprocess.PIPE, stderr=subprocess.STDOUT, timeout=timeout, text=True, errors="replace")
        return p.returncode, p.stdout
    except subprocess.TimeoutExpired:
        return 124, "timeout"


STMT = re.compile(r"^\s+(?!return\b|if\b|for\b|switch\b|case\b|default\b|go\b|defer\b|var\b|func\b|type\b|break\b|continue\b|\}|//)[A-Za-z_*&][^{}]*$")


def delete_candidates(path, text):
    # statement deletion: whole simple statements (assignments, calls, ++) replaced by nothing
    out = []
    for ln, line in enumerate(text.split("\n")):
        code = line.split("//")[0].rstrip()
        if not code.strip() or "verifNote" in code or ":=" in code:
            continue
        if STMT.match(code) and (code.strip().endswith(")") or "=" in code or code.strip().endswith("++") or code.strip().endswith("--")) and code.count("(") == code.count(")"):
            out.append((ln, len(line) - len(line.lstrip()), len(line), "_ = 0"))
    return out


def candidates(path, text):
    if os.environ.get("MUTATE_OP") == "delete":
        return delete_candidates(path, text)
    out = []
    lines = text.split("\n")
    in_block_comment = False
    for ln, line in enumerate(lines):
        st = line.strip()
        if st.startswith("//") or st.startswith("import") or st.startswith("package") or "verifNote" in line:
            continue
        code = line.split("//")[0]
        if '"' in code and code.count('"') % 2 == 0:
            # avoid mutating inside string literals: blank them out for matching, keep positions
            code = re.sub(r'"(?:[^"\\]|\\.)*"', lambda m: '"' + " " * (len(m.group(0)) - 2) + '"', code)
        for pat, reps in OPS:
            for m in re.finditer(pat, code):
                for rep in reps:
                    new = m.expand(rep) if "\\1" in rep else rep
                    out.append((ln, m.start(), m.end(), new))
    return out


def main():
    out = sys.argv[1]
    per_file = 6
    seed = 1
    only = None
    a = sys.argv[2:]
    while a:
        if a[0] == "--per-file":
            per_file = int(a[1]); a = a[2:]
        elif a[0] == "--seed":
            seed = int(a[1]); a = a[2:]
        elif a[0] == "--files":
            only = a[1].split(","); a = a[2:]
        else:
            a = a[1:]
    os.makedirs(out, exist_ok=True)
    wt = os.path.join(out, "wt")
    sh(f"git -C /repo worktree remove --force {wt}", "/")
    rc, o = sh(f"git -C /repo worktree add -q --detach {wt} HEAD", "/")
    if rc != 0:
        print(o); sys.exit(2)
    rng = random.Random(seed)
    res_path = os.path.join(out, "results.jsonl")
    done = set()
    if os.path.exists(res_path):
        for l in open(res_path):
            done.add(json.loads(l)["id"])
    try:
        for rel, checks in FILES.items():
            if only and rel not in only:
                continue
            path = os.path.join(wt, rel)
            if not os.path.exists(path):
                continue
            text = open(path).read()
            cands = candidates(rel, text)
            rng.shuffle(cands)
            taken = 0
            for (ln, s, e, new) in cands:
                if taken >= per_file:
                    break
                lines = text.split("\n")
                old_line = lines[ln]
                new_line = old_line[:s] + new + old_line[e:]
                mid = hashlib.sha1(f"{rel}:{ln}:{s}:{new}".encode()).hexdigest()[:10]
                if mid in done:
                    taken += 1
                    continue
                lines[ln] = new_line
                open(path, "w").write("\n".join(lines))
                rec = {"id": mid, "file": rel, "line": ln + 1, "old": old_line.strip(), "new": new_line.strip()}
                rc, o = sh("go build ./... ", wt, 300)
                if rc != 0:
                    rec["status"] = "no-compile"
                else:
                    rc, o = sh("go test -vet=off -count=1 . ./internal/... ./config/...", wt, 600)
                    if rc != 0:
                        rec["status"] = "killed-by-suite"
                    else:
                        taken += 1
                        rec["status"] = "survived"
                        rec["checks"] = {}
                        for cid in checks:
                            rc, o = sh(f"QV_REPO={wt} QV_OUT_DIR={out}/o ./run.sh {cid} quick", "/verif", 1200)
                            keys = sorted(set(re.findall(r"key=(\S+)", o)))[:3]
                            rec["checks"][cid] = {"exit": rc, "keys": keys}
                            if rc == 1:
                                rec["status"] = "caught"
                                rec["caught_by"] = cid
                                break
                            if rc == 2:
                                rec["status"] = "inconclusive"
                                rec["caught_by"] = cid
                                rec["note"] = o[-300:]
                                break
                open(path, "w").write(text)
                with open(res_path, "a") as f:
                    f.write(json.dumps(rec) + "\n")
                print(rec["status"], rel, ln + 1, "|", rec["old"][:70], "=>", rec["new"][:70], rec.get("caught_by", ""), flush=True)
    finally:
        sh(f"git -C /repo worktree remove --force {wt}", "/")


if __name__ == "__main__":
    main()
