#!/bin/bash
# usage: benign_matrix.sh <patch.diff> [check ids...]
# Applies a behaviour-preserving change to a scratch worktree of /repo HEAD and runs the quick checks against it.
# Every check must stay silent (exit 0): an alarm here is a false alarm of the machinery (or a bug in the change).
set -u
patch=$(readlink -f "$1"); shift
ids=("$@"); [ ${#ids[@]} -eq 0 ] && ids=(C01 C02 C03 C04 C05 C06 C07 C08 C09 C10 C11 C12 C13 C14 C15 C16 C17 C18 C19)
wt=/tmp/wt-benign.$$; out=/tmp/benign-run.$$
git -C /repo worktree add -q --detach "$wt" HEAD || exit 2
trap 'git -C /repo worktree remove --force "$wt" 2>/dev/null; rm -rf "$out"' EXIT
git -C "$wt" apply "$patch" || { echo "patch does not apply"; exit 3; }
for id in "${ids[@]}"; do
  o=$(cd /verif && QV_REPO="$wt" QV_OUT_DIR="$out" ./run.sh $id quick 2>&1); rc=$?
  if [ $rc -ne 0 ]; then echo "$(basename $(dirname $patch))/$(basename $patch) $id exit=$rc"; echo "$o" | grep -E "key=|INCON|hooks=" | head -4 | cut -c1-400; else echo "$(basename $(dirname $patch))/$(basename $patch) $id ok $(echo "$o" | grep -oE 'hooks=[a-z]+' | head -1)"; fi
done
