#!/bin/bash
# usage: adopt_seed.sh <ID> <A|B> <base-commit>
# Confirms a sub-agent's seeded change independently in a scratch worktree and stores it under /verif/seeded/<ID>-<A|B>/.
set -u
export GOFLAGS=-mod=mod GOPROXY=off GOSUMDB=off GOTOOLCHAIN=local
id=$1; v=$2; base=$3
src=${SEED_SRC:-/tmp/seed-out}/$id
name=${SEED_NAME:-$id-$v}
dst=/verif/seeded/$name
log=/tmp/adopt-$id-$v.log
: > $log
patch=$src/$v.patch.diff
reb=$src/$v.rebased.diff
head=$(git -C /repo rev-parse HEAD)
if [ ! -s "$reb" ]; then
  if git -C /repo apply --check "$patch" 2>/dev/null; then cp "$patch" "$reb";
  else /verif/tools/rebase_seed.sh "$patch" "$base" "$reb" >>$log 2>&1 || { echo "$id-$v: REBASE CONFLICT (see $log)"; exit 4; }; fi
fi
wt=/tmp/wt-adopt-$name
git -C /repo worktree add -q --detach "$wt" "$head" >>$log 2>&1 || exit 2
cd "$wt"
demo=$src/${v}_demo_test.go
res_build=fail; res_suite=fail; res_demo_with=unknown; res_demo_without=unknown
cp "$demo" zz_demo_test.go
if go test -vet=off -count=1 -run 'Demo|C[0-9][0-9]' . >>$log 2>&1; then res_demo_without=pass; else res_demo_without=fail; fi
rm -f zz_demo_test.go
git apply "$reb" >>$log 2>&1 || { echo "$id-$v: rebased patch does not apply"; cd /; git -C /repo worktree remove --force "$wt"; exit 3; }
if go build ./... >>$log 2>&1; then res_build=pass; fi
if go test -vet=off -count=1 ./... >>$log 2>&1; then res_suite=pass; else
  # one known flaky test: retry once
  if go test -vet=off -count=1 ./... >>$log 2>&1; then res_suite=pass; fi
fi
cp "$demo" zz_demo_test.go
if go test -vet=off -count=1 -run 'Demo|C[0-9][0-9]' . >>$log 2>&1; then res_demo_with=pass; else res_demo_with=fail; fi
cd /; git -C /repo worktree remove --force "$wt"
echo "$id-$v: build=$res_build suite=$res_suite demo_without_change=$res_demo_without demo_with_change=$res_demo_with"
if [ $res_build = pass ] && [ $res_suite = pass ] && [ $res_demo_without = pass ] && [ $res_demo_with = fail ]; then
  mkdir -p "$dst"
  cp "$reb" "$dst/patch.diff"; cp "$demo" "$dst/demo_test.go"; cp "$src/$v.md" "$dst/notes.md"
  python3 - "$id" "$v" "$head" "$dst" <<'PY'
import json,sys
id,v,head,dst=sys.argv[1:]
notes=open(dst+"/notes.md").read()
meta={"name":dst.rsplit("/",1)[1],"breaks_property":id,"origin":"independent sub-agent given only the property text and a scratch worktree",
 "patch_against_repo_commit":head,
 "needs_to_manifest":"see notes.md (written by the sub-agent)",
 "confirmed":{"build":"pass","existing_suite_with_change":"pass","demo_without_change":"pass","demo_with_change":"fail",
   "how":"tools/adopt_seed.sh: scratch worktree of /repo HEAD under /tmp; go build ./...; go test -vet=off -count=1 ./...; demo placed as zz_demo_test.go in the root package and run with go test -run; worktree removed afterwards"},
 "detected_by":{}}
json.dump(meta,open(dst+"/meta.json","w"),indent=1)
PY
  echo "$id-$v: adopted -> $dst"
else
  echo "$id-$v: NOT adopted (see $log)"
fi
