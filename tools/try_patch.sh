#!/bin/bash
# usage: try_patch.sh <patch.diff> <ID> [tier]   -- apply a seeded change to /repo, run the check, undo it
set -u
patch=$1; id=$2; tier=${3:-quick}
cd /repo || exit 2
if ! git diff --quiet || ! git diff --cached --quiet; then echo "/repo has uncommitted changes"; exit 2; fi
if ! git apply "$patch" 2>/tmp/apply.err; then echo "patch does not apply:"; cat /tmp/apply.err; exit 3; fi
cd /verif && ./run.sh "$id" "$tier"
rc=$?
git -C /repo checkout -- . && git -C /repo clean -fdq
echo "exit=$rc"
exit $rc
