#!/usr/bin/env python3
"""Generates /verif/MANIFEST.json from the table below (kept next to the harness so both change together)."""
import json, subprocess, os

V = os.path.dirname(os.path.dirname(os.path.abspath(__file__)))

HOOK_COMMITS = ["c699a1d"]

# id -> (category, technique, level text, level note, design ref)
CHECKS = {}
def check(i, cat, tech, text, note, ref):
    CHECKS[i] = dict(cat=cat, tech=tech, text=text, note=note, ref=ref)

NOT_APPLICABLE = {}

exec(open(os.path.join(V, "tools", "manifest_table.py")).read())

m = {
    "version": 1,
    "setup_cmd": "./run.sh --setup",
    "hooks": {
        "guard": "verif",
        "enable": "Go build tag: the harness (module qverif, replace github.com/tobgu/qframe => /repo) is built by run.sh with `go build -tags verif` (plus -gcflags=all=-d=checkptr, -race or -asan per stage); if the hook files no longer compile run.sh falls back to an API-only build and records hooks=unavailable in the evidence",
        "baseline_off_cmd": "cd /repo && GOFLAGS=-mod=mod GOPROXY=off GOSUMDB=off GOTOOLCHAIN=local go test -json -vet=off -count=1 -timeout 25m ./...",
        "source_commits": HOOK_COMMITS,
        "add_only": True,
    },
    "engines": [
        {"name": "qverif", "path": "harness/", "serves_properties": sorted(CHECKS),
         "kind_free_text": "Go runtime-monitoring harness: driver + worker processes, shadow-model oracles at the public API, invariant hooks, fault-injecting readers/writers/SQL driver, Go race detector / checkptr / ASan build flavours"},
    ],
    "checks": [],
    "not_applicable": [{"property_id": k, "reason": v} for k, v in sorted(NOT_APPLICABLE.items())],
    "notes": "All checks: ./run.sh <ID> <quick|thorough>; VERIF_SEED seeds every random choice; exit 0 held / 1 VIOLATION / 2 INCONCLUSIVE (never folded into either). Known findings: known_findings.txt. Seeded changes used to validate the monitors: seeded/<name>/ (see DESIGN.md section 6).",
}
for i in sorted(CHECKS):
    c = CHECKS[i]
    m["checks"].append({
        "property_id": i,
        "quick_cmd": f"./run.sh {i} quick",
        "thorough_cmd": f"./run.sh {i} thorough",
        "evidence_file": f"/verif/evidence/{i}.json",
        "replay_cmd_template": "./run.sh --replay {path}",
        "engine": "qverif",
        "level_claimed": {"category": c["cat"], "text": c["text"], "design_ref": c["ref"]},
        "level_note": c["note"],
        "technique": c["tech"],
    })
json.dump(m, open(os.path.join(V, "MANIFEST.json"), "w"), indent=1)
print("wrote MANIFEST.json with", len(m["checks"]), "checks")
