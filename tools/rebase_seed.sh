#!/bin/bash
# usage: rebase_seed.sh <patch.diff> <base-commit> <out.diff>
# Re-expresses a seeded patch made against <base-commit> as a diff against /repo HEAD.
set -u
patch=$(readlink -f "$1"); base=$2; out=$(readlink -f -m "$3")
wt=/tmp/wt-rebase.$$
git -C /repo worktree add -q --detach "$wt" "$base" || exit 2
cd "$wt" || exit 2
git apply "$patch" || { echo "does not apply on base"; cd /; git -C /repo worktree remove --force "$wt"; exit 3; }
git add -A && git -c user.name=x -c user.email=x@x commit -qm seed
c=$(git rev-parse HEAD)
git checkout -q --detach "$(git -C /repo rev-parse HEAD)"
if git -c user.name=x -c user.email=x@x cherry-pick "$c" >/tmp/cp.log 2>&1; then
  git diff HEAD~1 HEAD > "$out"; echo "rebased ok -> $out"; rc=0
else
  echo "CONFLICT (resolve by hand in $wt, then: git diff HEAD > $out)"; git status --short; exit 4
fi
cd /; git -C /repo worktree remove --force "$wt"
exit $rc
