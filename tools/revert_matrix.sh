#!/bin/bash
# usage: revert_matrix.sh [tier]
# For every "fixed:" line of known_findings.txt: revert that fix commit in a scratch worktree of /repo HEAD and run the
# property's check against it (QV_REPO). The check must report a violation again (a fixed entry suppresses nothing).
set -u
tier=${1:-quick}
wt=/tmp/wt-revert.$$
out=/tmp/revert-out.$$
git -C /repo worktree add -q --detach "$wt" HEAD || exit 2
trap 'git -C /repo worktree remove --force "$wt" 2>/dev/null; rm -rf "$out"' EXIT
grep "^fixed:" /verif/known_findings.txt | grep -E "${REVERT_FILTER:-.}" | while read -r _ prop commit rest; do
  id=${prop#property=}
  git -C "$wt" checkout -q -- . && git -C "$wt" clean -fdq
  if [ -f "/verif/tools/reverts/$commit.diff" ]; then git -C "$wt" apply "/verif/tools/reverts/$commit.diff" || continue
  elif ! git -C "$wt" diff "$commit" "$commit~1" | git -C "$wt" apply 2>/tmp/apply.err; then echo "$id $commit: reverse patch does not apply cleanly (later commits touch the same lines)"; continue; fi
  outtxt=$(cd /verif && QV_REPO="$wt" QV_OUT_DIR="$out" ./run.sh $id $tier 2>&1)
  rc=$?
  keys=$(echo "$outtxt" | grep -oE "key=[^ ]+" | sort -u | head -3 | tr '\n' ' ')
  echo "$id revert-of-$commit $tier exit=$rc $keys"
done
